#!/usr/bin/env python3
"""Assembles evidence/selftest-sensitivity.json from several bin/sensitivity runs (each made on a
snapshot of /verif and /repo, see DESIGN 9): later sources override earlier ones, every entry says
where it came from. usage: merge_sensitivity.py <source>...   source = path.json[:label] | path.log:label:commit"""
import json, os, re, sys, glob
VERIF = os.path.dirname(os.path.dirname(os.path.abspath(__file__)))
res = {}
for src in sys.argv[1:]:
    parts = src.split(":")
    path, label = parts[0], (parts[1] if len(parts) > 1 else os.path.basename(parts[0]))
    if path.endswith(".json"):
        for r in json.load(open(path))["results"]:
            r = dict(r, source=label)
            res[r["id"]] = r
    else:
        commit = parts[2] if len(parts) > 2 else ""
        for line in open(path, errors="replace"):
            m = re.match(r"^(\S+)\s+(caught|missed|harness-error)\s+expected\s+(\S+)\s+(\[.*\])\s*$", line.rstrip("\n"))
            if m:
                try:
                    classes = eval(m.group(4), {"__builtins__": {}})
                except Exception:
                    classes = []
                res[m.group(1)] = {"id": m.group(1), "outcome": m.group(2), "expect": m.group(3), "classes": classes, "verif_commit": commit, "source": label}
# the expectation is what the committed meta.json says now
for d in glob.glob(os.path.join(VERIF, "seeded", "*", "meta.json")):
    i = os.path.basename(os.path.dirname(d))
    if i in res:
        res[i]["expect"] = json.load(open(d)).get("check_result", "caught")
results = sorted(res.values(), key=lambda r: r["id"])
out = {"selftest": "sensitivity", "changes": len(results), "caught": sum(r["outcome"] == "caught" for r in results),
       "missed": [r["id"] for r in results if r["outcome"] == "missed"],
       "unexpected": [r["id"] for r in results if r["outcome"] != r["expect"] and not (r["expect"] == "missed" and r["outcome"] == "caught")],
       "sources": sys.argv[1:], "results": results}
json.dump(out, open(os.path.join(VERIF, "evidence", "selftest-sensitivity.json"), "w"), indent=1)
print("changes", out["changes"], "caught", out["caught"], "missed", len(out["missed"]), "unexpected", out["unexpected"])
