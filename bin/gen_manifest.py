#!/usr/bin/env python3
"""Regenerates /verif/MANIFEST.json from the table below (keeps it valid at all times)."""
import json, os, subprocess

VERIF = os.path.dirname(os.path.dirname(os.path.abspath(__file__)))

# id -> (level, technique, level text, level note, design ref)
CHECKS = {
    "C04": ("exploration",
            "deterministic simulation: seeded operation histories vs reference model (StoreModel), SimDisk seam, synctest virtual clock",
            "Seeded search over sequential operation histories (append anywhere/with gaps/repeats, Sync, DeleteRange valid+invalid, Stop/Start) x batch/cache sizes x datastore flavours on the real store.Store over a simulated disk; after every step the public API is compared with an executable reference model. Sampling, not proof; every failure is a minimised replayable tape.",
            "Trusts: SimDisk semantics (atomic batch commit, read-through transactions), the reference model StoreModel, simhdr header type. 2Q caches of size 1 are rejected by NewStore and therefore not explored.",
            "DESIGN.md §6 C04"),
    "C06": ("fault_enumeration",
            "deterministic simulation with fault injection: crash-point enumeration over the recorded datastore write log of seeded histories + seeded placement of failing writes + clean restarts",
            "For each seeded append/delete/sync/restart history on the real Store over SimDisk: (a) every clean Stop/Start (also straight after Append) is compared with the reference model; (b) write-log prefixes (every prefix in the thorough tier; the boundaries around pointer writes/deletes plus a random sample in the quick tier) are rebuilt into disk images, a fresh Store is opened on each and must start, have resolvable Head/Tail with every height between them retrievable, keep every surviving committed header, and advance Head when the chain's continuation is appended; (c) N in {1,2,3,5} consecutive failing writes are placed inside the history and virtual time lets the flush back-off loop finish.",
            "Crash model: only the datastore's commit log survives; a batch commit is atomic; no torn or reordered writes. Histories are sampled, crash points inside a sampled history are enumerated (thorough) or sampled (quick).",
            "DESIGN.md §6 C06"),
    "C08": ("exploration",
            "deterministic simulation: seeded store layouts x DeleteRange argument grid x continuations vs reference model; part-way failures produced by virtual-time deadlines inside the deletion",
            "Seeded stores (chunked appends, islands above gaps, flushed/unflushed mixes, both datastore flavours) x DeleteRange(from,to) from the boundary grid and from generated acceptable ranges; rejected ranges must leave API and raw datastore untouched; accepted ones must remove exactly the range (API + raw keys), permanently across later appends, flushes, restarts; part-way failures (caller deadline placed by the tape inside the deletion, 1ms per datastore op of virtual time) must leave the rest untouched, ends resolvable, and a tail-side retry must complete.",
            "Trusts SimDisk and the reference model; datastore write errors during DeleteRange belong to C06's quantifier, not C08's, and are injected there.",
            "DESIGN.md §6 C08"),
    "C14": ("exploration",
            "deterministic simulation with fault injection: scripted OnDelete handlers (error / panic / slow at every position) over seeded stores and ranges, handler-call log vs datastore write log",
            "1-3 handlers with tape-chosen scripts (ok, error at k-th call, panic at k-th call, slow in virtual time) on seeded stores and deletable ranges; oracle from the recorded handler calls, the datastore write log (ordering of handler calls vs the first datastore delete of that height) and API probes: every removed header had every handler called exactly once while still readable by height and hash, all nil; a failing/panicking handler keeps its header, yields an error (never a crash), leaves headers above it untouched on the tail side and is called again on retry; handlers are never called outside the range.",
            "Trusts SimDisk's write log ordering and the reference model.",
            "DESIGN.md §6 C14"),
    "C12": ("exploration",
            "deterministic simulation: seeded schedules (cooperative scheduler at SimDisk ops and verif-tagged hooks in GetByHeight/heightSub/flush) of readers, writers and cancellers; lost-wake-up detection at quiescence in virtual time",
            "1-3 readers (future, stored and pruned heights), 1-2 writers (contiguous, gapped, out-of-order runs) and context cancellers run as tasks whose interleaving at every simulated disk operation and at the hook points inside GetByHeight, heightSub.Wait/SetHeight and the flush closure is decided by the seeded tape (PCT-style bias towards few preemptions). Oracle over the history: a reader still blocked at quiescence although its header was appended and synced is a lost wake-up; returned headers must be the appended ones; ErrNotFound only once Height reached the height, without virtual time passing; cancellation releases at once.",
            "Interleavings are explored at park points only; code between them runs on the Go scheduler at GOMAXPROCS=1. Determinism self-test: evidence/selftest-determinism.json.",
            "DESIGN.md §6 C12"),
    "C17": ("exploration",
            "deterministic simulation: seeded schedules of 2-4 writers, 1-3 readers and one tail-side deleter over the real Store (hooks + SimDisk park points), invariants per observation and final-state refinement against the sequential model",
            "Writers append overlapping/gapped runs followed by Sync, readers loop over Head/Height/GetByHeight/Get, optionally one tail-side DeleteRange races with the appends; the tape decides every interleaving at disk operations and store hooks. Invariants per observation: Head().Height() and Height() never decrease, the observed head is retrievable by height and hash, a header whose Append+Sync completed is readable; at the end the Store equals the order-insensitive sequential model (gap-free chain, model tail after the racing delete).",
            "The race detector is not part of the deciding step (a cooperative schedule is fully happens-before ordered). Determinism holds at GOMAXPROCS=1, which workers and replays pin; at 4/16 goroutines woken by channel operations run in parallel between park points.",
            "DESIGN.md §6 C17"),
    "C01": ("exploration",
            "deterministic simulation of the clock only (synctest fake clock, calibrated drift boundary) + complete categorical class product with seeded concrete values vs reference model",
            "header.Verify reads the wall clock, which the simulator owns: the drift allowance is measured by bisection (sharp, constant across pairs and clock values), then every class of the product zero/non-zero x chain x height relation (<,=,+1,>+1,+2^63) x time relation to trusted x time relation to now (past, =now+drift, +1ns, far) x 7 type-level result shapes is instantiated with tape-chosen concrete values and clock jumps and compared with the executable statement (nil iff all conditions hold; bare *VerifyError; sentinel of a violated condition; SoftFailure rule). Nothing but the clock is simulated; this is seeded generation against a model and says so.",
            "Trusts the reference model simhdr.ModelVerify and the simhdr header type.",
            "DESIGN.md §6 C01"),
    "C02": ("exploration",
            "deterministic simulation of the clock only + seeded defective sequences vs reference model (verified, height-adjacent prefix)",
            "Sequences of 0..40 headers (adjacent or non-adjacent start) damaged by up to two defects (gap, duplicate, swap, zero, wrong chain, stale, time going back, from the future, type-level soft/hard, forged MAC, fork) at tape-chosen positions; oracle: the result is a prefix of the input by identity, its length is exactly the verified height-adjacent prefix computed by the model, err==nil iff it is the whole non-empty input, errors are *VerifyError.",
            "Trusts the reference model; only the clock is simulated.",
            "DESIGN.md §6 C02"),
    "C03": ("exploration",
            "deterministic simulation with fault injection: real Syncer+Store over SimGetter/SimSubscriber/SimDisk, seeded schedules at sync hooks and getter calls, adversarial gossip catalogue, storage oracle over API and raw datastore",
            "Gossip deliveries (honest next/skipping/bursts with gaps, forged MAC near and far, wrong chain, dated beyond the calibrated drift, stale, duplicate), Head() calls, clock advances and getter faults (errors, short prefixes) run as concurrent tasks against the sync loop; interleaving at getter calls, sync hooks (syncStore.Append, setLocalHead, processHeaders, incomingMu token) is decided by the tape. Safety oracle at every quiescent point: every stored header (height index, header bytes, hash keys) is the honest chain's, the stored heights are one gap-free run Tail..Head, every invalid delivery got an error, no refused header is State().ToHash or Head(), the store head never moves back.",
            "The getter is contract-abiding by construction (honest chain); validly signed forks are outside the property. Interleavings at park points only.",
            "DESIGN.md §6 C03"),
    "C07": ("exploration",
            "deterministic simulation with fault injection: bounded liveness in virtual time after faults stop (honest getter with prefixes and finite error runs, concurrent gossip/Head()/sync loop schedules)",
            "Same system as C03 with honest deliveries only; getter returns short prefixes and finite runs of errors while heads arrive adjacent, skipping, in bursts leaving gaps in the pending set and during running syncs. After the fault phase one more valid head is delivered and the run continues to quiescence under a virtual-time budget: the store head must reach the newest verified head, State() finished without error, SyncWait nil. No timing or identity is asserted while faults flow.",
            "Liveness is bounded (30 virtual minutes per wait); the getter is honest.",
            "DESIGN.md §6 C07"),
    "C15": ("exploration",
            "deterministic simulation with fault injection: bifurcation driven through the subscriber's verifier over distances 2..4096, trust-range predicates incl. non-monotone bad epochs, forged/forked/wrong-chain candidates, getter failure at the j-th request",
            "One candidate per round at a tape-chosen distance from the subjective head; non-adjacent verification succeeds per a per-run trust range and a set of bad epochs; the SimGetter fails the j-th GetByHeight. Oracle: accepted (verifier nil, Syncer.Head() becomes the candidate) iff honest and no injected failure was hit; refused otherwise; GetByHeight requests <= D*(ceil(log2 D)+2)+2; the call returns within the virtual-time budget; afterwards only honest headers are stored/promoted.",
            "Validly signed forks are only used where no skipping verification can succeed (they pass it by definition).",
            "DESIGN.md §6 C15"),
    "C16": ("exploration",
            "deterministic simulation: accepted parameter combinations x chain shapes (young, old, bursty, slow, halted) x restart/reconfiguration cycles in virtual time; panic recovery, tail-request range probe, storage oracle, per-cycle pruning oracle",
            "Parameters from the boundary grid (trustingPeriod, PruningWindow 0/1ns/.../weeks, blockTime 0/1ns/.../1h, SyncFromHeight, SyncFromHash of an existing header), chains of 5..200 headers with regular/bursty/slow/halted spacing; cycles of Start, gossip/Head(), clock advance, Stop, reconfigure. Oracle: no panic, Start/Head return within the budget and without error (unless the network head is itself expired), no getter request for a height beyond the network head, the Store is one gap-free honest chain with 1<=Tail<=Head, and no header younger than head.Time-PruningWindow is deleted in a cycle whose spacing is within blockTime.",
            "Chains start at height 1 (the estimation's 'genesis'); known finding K02 (new tail above the stored head wedges Start) is listed in known_findings.json.",
            "DESIGN.md §6 C16"),
    "C19": ("exploration",
            "deterministic simulation: virtual clock against explicitly configured recency threshold/trusting period, gated SimGetter.Head so that 2-5 callers really overlap, scripted trusted-peer answers (fresh, lower, expired, error, slower than the request timeout)",
            "Sequences of clock advances (sub-threshold, just past recency, past the trusting period), chain halts, gossip and groups of concurrent Head() calls whose shared request is held open until all callers have joined. Oracle over the recorded getter calls and results: Head() heights never decrease in return order; a recent subjective head causes no request; a stale one exactly one request carrying TrustedHead = subjective head, shared by all overlapping callers who get the same height; (re)initialisation asks without TrustedHead and adopts only a non-expired head, else fails.",
            "Thresholds are configured explicitly so no implementation default is mirrored.",
            "DESIGN.md §6 C19"),
    "C05": ("exploration",
            "deterministic simulation with fault injection: real p2p.Exchange client on a libp2p mocknet against 1-5 scripted Byzantine/omission peers whose replies are released by the seeded scheduler in virtual time",
            "Per run: chunk size, request timeout, peer count, (from,to) incl. degenerate ones, and for every peer a palette from a catalogue of 21 behaviours (honest, NOT_FOUND, prefix, shifted up/down/short, repeated, reordered, extra, forged, wrong/empty chain, fails Validate, undecodable body, unknown status, raw garbage, truncated frame, empty stream, hang, reset, slower than the timeout). Oracle: the call returns within its own deadline plus one request timeout; the result is an error or exactly the honest headers from+1, from+2, ... below to; degenerate requests fail at once; nothing panics.",
            "libp2p's mocknet is the transport (real BasicHost, multistream, streams); its streams ignore deadlines. Peers are scripted handlers speaking the real protobuf/serde framing. Residual nondeterminism of mocknet internals at GOMAXPROCS=1 was measured (evidence/selftest-determinism.json).",
            "DESIGN.md §6 C05"),
    "C09": ("exploration",
            "deterministic simulation: 1-6 scripted peers answering head requests (agreeing, conflicting, invalid, soft-/hard-failing against the trusted head, missing, hanging), arrival order decided by the seeded scheduler; statement replayed over what the asked peers supplied",
            "Oracle: the returned header was supplied as acceptable by an asked peer; with every asked peer answering and no quorum the result has the highest reported height; nobody supplied one -> ErrNotFound and a zero header; a caller deadline only with hanging peers and never when a quorum was available without them; with WithTrustedHead a nil error means it verifies against it, a soft-failing header comes with its SoftFailure *VerifyError, a hard-failing one never; at most 4 ordinary peers are asked.",
            "Which of several quorum candidates wins under hanging peers is not asserted. Peer order is made reproducible by the verif-tagged p2p hook.",
            "DESIGN.md §6 C09"),
    "C10": ("exploration",
            "deterministic simulation with fault injection: real ExchangeServer over a recording/delaying proxy around a real pruned Store; raw stream client sending the (origin,amount) boundary grid, hashes, garbage and half frames; slow store in virtual time",
            "Stores with tail above 1 (real DeleteRange) and head H; requests from the grid {0,1,tail-1,tail,tail+1,mid,H-1,H,H+1,H+70,2^64-64,2^64-1} x {0,1,2,63,64,65,1000,2^64-2,2^64-1}, known/pruned/unknown/overlong hashes, arbitrary bytes, truncated frames, and a store slower than RequestTimeout. Oracle: the exchange ends within the configured timeouts, the proxy saw header reads of at most min(amount, MaxRangeRequestSize), the reply is NOT_FOUND, a reset, or OK frames that decode to exactly the store's headers at origin, origin+1, ... (shorter only past the head), origin 0 -> head, hash -> that header.",
            "mocknet streams ignore Set(Read|Write)Deadline, so a client that stalls without closing cannot be timed out here: ReadDeadline/WriteDeadline are not exercised, RequestTimeout is.",
            "DESIGN.md §6 C10"),
    "C11": ("exploration",
            "deterministic simulation: three real gossipsub nodes on a mocknet line A-B-C in virtual time, raw publisher at A, real p2p.Subscribers at B and C, scripted verifier at B, raw tracer + peer score inspection + both subscriptions as observation points",
            "One message at a time (heartbeats run on the fake clock): payloads valid / failing Validate / truncated / extended / arbitrary / decoder-panicking / single-field-corrupted, crossed with verifier outcomes nil, soft, hard, wrapped soft/hard, plain error, panic, slow, and no verifier set yet. Oracle: delivered at B and received at C (reachable only through B) iff it decodes, validates and the verifier returned nil, with the delivered value equal to the header; soft -> tracer 'validation ignored', nothing delivered/relayed, A's invalid-message counter unchanged; anything else -> 'validation failed'; a message arriving before a verifier is set is held and then judged; the process survives every case.",
            "Real go-libp2p-pubsub; gossipsub timing parameters are its defaults.",
            "DESIGN.md §6 C11"),
    "C13": ("exploration",
            "deterministic simulation with fault injection: 1-4 scripted trusted peers answering Get/GetByHeight with a catalogue of valid, lying, malformed, hanging and slow responses, released by the seeded scheduler in virtual time",
            "Answers: honest, another valid header, wrong chain, empty chain id, fails Validate, empty body with OK, NOT_FOUND, unknown status, zero or two responses, oversized length prefix, truncated frame, arbitrary bytes, hang, reset, slower than the request timeout. Oracle: Get(hash) returns a header with that hash or an error; both calls return only a header that some trusted peer sent as a decodable, validating, right-chain first response; they succeed when a trusted peer answered validly in time (and nobody lied with another valid header), fail when none did; never (zero header, nil); no panic.",
            "Which valid answer wins is not asserted.",
            "DESIGN.md §6 C13"),
    "C18": ("exploration",
            "deterministic simulation with benign fault injection: real Exchange client against 1-5 real ExchangeServers over real Stores (availability prefixes), service times, one-off timeouts, slow peers, disconnect/reconnect, in virtual time; bounded liveness",
            "Grid per run: chunk size 1..64, range length 1..3x chunk, 1..5 servers of which one holds everything and is healthy, the others hold tape-chosen prefixes (ending before, inside or after the range) and may time out once, be slow, or disconnect and reconnect mid-request. Oracle: GetRangeByHeight returns nil error and exactly from+1..to-1 in ascending order within a virtual-time budget of chunks x (peers+2) x (timeout+service); Head/Get/GetByHeight return the servers' headers unchanged through the wire encoding.",
            "Bounded liveness with a generous stated budget; peers are honest by construction.",
            "DESIGN.md §6 C18"),
}

PENDING = {}  # id -> reason (not claimed yet)

def main():
    props = [json.loads(l)["id"] for l in open(os.path.join(VERIF, "properties.jsonl")) if l.strip()]
    checks = []
    for pid in props:
        if pid not in CHECKS:
            continue
        level, tech, text, note, ref = CHECKS[pid]
        checks.append({
            "property_id": pid,
            "quick_cmd": "bin/check %s --tier quick" % pid,
            "thorough_cmd": "bin/check %s --tier thorough" % pid,
            "evidence_file": "/verif/evidence/%s.json" % pid,
            "replay_cmd_template": "bin/check %s --replay {path}" % pid,
            "engine": "detsim",
            "level_claimed": {"category": level, "text": text, "design_ref": ref},
            "level_note": note,
            "technique": tech,
        })
    na = [{"property_id": p, "reason": PENDING.get(p, "check not built yet in this round (work in progress; see DESIGN.md §6 for the planned simulation)")}
          for p in props if p not in CHECKS]
    try:
        commits = subprocess.run(["git", "-C", "/repo", "log", "--format=%h %s", "--grep=^verif-hook:"], stdout=subprocess.PIPE, text=True).stdout.strip().splitlines()
    except Exception:
        commits = []
    m = {
        "version": 1,
        "setup_cmd": "bin/check build",
        "hooks": {
            "guard": "verif",
            "enable": "go test -c -tags verif ./props in /verif/sim; the module's replace directive points at /verif/.build/inst, a scratch copy of /repo's current working tree remade by every build, into which sim/autoyield additionally inserts park points before lock/atomic/go/channel-send statements (that instrumentation is never written to /repo); the committed hooks are no-op functions without the tag",
            "baseline_off_cmd": "cd /repo && GOFLAGS=-mod=mod go test -json -vet=off -count=1 -timeout 25m ./...",
            "source_commits": [c.split()[0] for c in commits],
            "add_only": True,
        },
        "engines": [{"name": "detsim", "path": "/verif/sim", "serves_properties": [c["property_id"] for c in checks],
                     "kind_free_text": "deterministic simulation with fault injection: seeded choice tape, cooperative scheduler over a testing/synctest bubble, park points at seams, tagged hooks and mechanically inserted lock/atomic sites, simulated disk/getter/peers, reference-model oracles, tape shrinking and replay"}],
        "checks": checks,
        "not_applicable": na,
        "notes": "All checks: bin/check <id> --tier quick|thorough [--seed N]; VERIF_SEED and VERIF_TIER are honoured. Exit 0 held / 1 VIOLATION (replay-confirmed) / 2 harness trouble. Known findings: /verif/known_findings.json.",
    }
    with open(os.path.join(VERIF, "MANIFEST.json"), "w") as f:
        json.dump(m, f, indent=1)
    print("MANIFEST.json: %d checks, %d not claimed" % (len(checks), len(na)))

if __name__ == "__main__":
    main()
