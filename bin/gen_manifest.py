#!/usr/bin/env python3
"""Regenerates /verif/MANIFEST.json from the table below (keeps it valid at all times)."""
import json, os, subprocess

VERIF = os.path.dirname(os.path.dirname(os.path.abspath(__file__)))

# id -> (level, technique, level text, level note, design ref)
CHECKS = {
    "C04": ("exploration",
            "deterministic simulation: seeded operation histories vs reference model (StoreModel), SimDisk seam, synctest virtual clock",
            "Seeded search over sequential operation histories (append anywhere/with gaps/repeats, Sync, DeleteRange valid+invalid, Stop/Start) x batch/cache sizes x datastore flavours on the real store.Store over a simulated disk; after every step the public API is compared with an executable reference model. Sampling, not proof; every failure is a minimised replayable tape.",
            "Trusts: SimDisk semantics (atomic batch commit, read-through transactions), the reference model StoreModel, simhdr header type. 2Q caches of size 1 are rejected by NewStore and therefore not explored.",
            "DESIGN.md §6 C04"),
}

PENDING = {}  # id -> reason (not claimed yet)

def main():
    props = [json.loads(l)["id"] for l in open(os.path.join(VERIF, "properties.jsonl")) if l.strip()]
    checks = []
    for pid in props:
        if pid not in CHECKS:
            continue
        level, tech, text, note, ref = CHECKS[pid]
        checks.append({
            "property_id": pid,
            "quick_cmd": "bin/check %s --tier quick" % pid,
            "thorough_cmd": "bin/check %s --tier thorough" % pid,
            "evidence_file": "/verif/evidence/%s.json" % pid,
            "replay_cmd_template": "bin/check %s --replay {path}" % pid,
            "engine": "detsim",
            "level_claimed": {"category": level, "text": text, "design_ref": ref},
            "level_note": note,
            "technique": tech,
        })
    na = [{"property_id": p, "reason": PENDING.get(p, "check not built yet in this round (work in progress; see DESIGN.md §6 for the planned simulation)")}
          for p in props if p not in CHECKS]
    try:
        commits = subprocess.run(["git", "-C", "/repo", "log", "--format=%h %s", "--grep=^verif-hook:"], stdout=subprocess.PIPE, text=True).stdout.strip().splitlines()
    except Exception:
        commits = []
    m = {
        "version": 1,
        "setup_cmd": "bin/check build",
        "hooks": {
            "guard": "verif",
            "enable": "go test -c -tags verif ./props (in /verif/sim, module replace => /repo); hooks are no-op functions without the tag",
            "baseline_off_cmd": "cd /repo && GOFLAGS=-mod=mod go test -json -vet=off -count=1 -timeout 25m ./...",
            "source_commits": [c.split()[0] for c in commits],
            "add_only": True,
        },
        "engines": [{"name": "detsim", "path": "/verif/sim", "serves_properties": [c["property_id"] for c in checks],
                     "kind_free_text": "deterministic simulation with fault injection: seeded choice tape, cooperative scheduler over a testing/synctest bubble, simulated disk/getter/peers, reference-model oracles, tape shrinking and replay"}],
        "checks": checks,
        "not_applicable": na,
        "notes": "All checks: bin/check <id> --tier quick|thorough [--seed N]; VERIF_SEED and VERIF_TIER are honoured. Exit 0 held / 1 VIOLATION (replay-confirmed) / 2 harness trouble. Known findings: /verif/known_findings.json.",
    }
    with open(os.path.join(VERIF, "MANIFEST.json"), "w") as f:
        json.dump(m, f, indent=1)
    print("MANIFEST.json: %d checks, %d not claimed" % (len(checks), len(na)))

if __name__ == "__main__":
    main()
