module autoyield

go 1.23
