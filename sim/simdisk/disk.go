// Package simdisk is the simulated datastore: an in-memory ordered map behind
// go-datastore's Batching (and optionally Txn) interfaces where every
// operation is a scheduler park point, can be delayed or failed, and is
// recorded in a write log from which crash images are rebuilt.
package simdisk

import (
	"context"
	"errors"
	"fmt"
	"os"
	"sort"
	"strings"
	"sync"
	"time"

	ds "github.com/ipfs/go-datastore"
	contextds "github.com/ipfs/go-datastore/context"
	"github.com/ipfs/go-datastore/query"

	"verifsim/core"
)

// Debug logs every operation (replay diagnosis only).
var Debug = os.Getenv("VERIF_DEBUG") == "1"

var ErrInjected = errors.New("simdisk: injected I/O error")

type KV struct {
	Del bool
	Key string
	Val []byte
}

// Entry is one atomic durable write: a direct Put/Delete or a whole batch
// commit (go-header's property C06 takes a commit as atomic).
type Entry struct {
	Kind string // "put" | "del" | "commit"
	Ops  []KV
}

type Disk struct {
	Name string
	Sim  *core.Sim

	mu   sync.Mutex
	data map[string][]byte
	wlog []Entry

	// Park makes every operation a scheduler park point.
	Park bool
	// ErrWraps, if set, is wrapped into every injected error (context.DeadlineExceeded,
	// context.Canceled: a datastore's own timeout is not the caller's).
	ErrWraps error
	// Latency, if set, is slept (virtual time) inside each operation.
	Latency func(op string) time.Duration
	// Fault decides whether an operation fails. Called with the operation
	// class ("read" | "write"), the op name and key, and the running index of
	// operations of that class. Returning non-nil fails the op with no effect.
	Fault func(class, op, key string, idx int) error
	// Observe is called (under no lock) after each successful mutation entry.
	Observe func(e Entry, idx int)
	// FaultBatchOps makes Delete on a batch a fault point (and park point) of its own
	FaultBatchOps bool

	reads, writes int
	blackhole     bool
}

func New(name string, sim *core.Sim) *Disk {
	return &Disk{Name: name, Sim: sim, data: map[string][]byte{}}
}

// FromImage builds a disk holding exactly the given log prefix.
func FromImage(name string, sim *core.Sim, log []Entry) *Disk {
	d := New(name, sim)
	for _, e := range log {
		d.apply(e)
	}
	// the image's own history starts with what it was built from, so that an image of the
	// image (a second crash) is complete
	d.wlog = append([]Entry(nil), log...)
	return d
}

func (d *Disk) apply(e Entry) {
	for _, op := range e.Ops {
		if op.Del {
			delete(d.data, op.Key)
		} else {
			d.data[op.Key] = op.Val
		}
	}
}

// Blackhole detaches the disk: writes succeed and vanish, reads see the frozen
// state. Used for the instance that "died" in a crash so it can be stopped.
func (d *Disk) Blackhole() {
	d.mu.Lock()
	d.blackhole = true
	d.Park = false
	d.Fault = nil
	d.Latency = nil
	d.mu.Unlock()
}

func (d *Disk) Log() []Entry {
	d.mu.Lock()
	defer d.mu.Unlock()
	return append([]Entry(nil), d.wlog...)
}

func (d *Disk) LogLen() int { d.mu.Lock(); defer d.mu.Unlock(); return len(d.wlog) }

// Keys returns all keys, sorted.
func (d *Disk) Keys() []string {
	d.mu.Lock()
	defer d.mu.Unlock()
	ks := make([]string, 0, len(d.data))
	for k := range d.data {
		ks = append(ks, k)
	}
	sort.Strings(ks)
	return ks
}

func (d *Disk) Raw(key string) ([]byte, bool) {
	d.mu.Lock()
	defer d.mu.Unlock()
	v, ok := d.data[key]
	return v, ok
}

func (d *Disk) Snapshot() map[string]string {
	d.mu.Lock()
	defer d.mu.Unlock()
	m := make(map[string]string, len(d.data))
	for k, v := range d.data {
		m[k] = string(v)
	}
	return m
}

func (d *Disk) Counts() (reads, writes int) {
	d.mu.Lock()
	defer d.mu.Unlock()
	return d.reads, d.writes
}

// pre runs the seam part common to all ops: park, latency, fault decision.
func (d *Disk) pre(class, op, key string) error {
	d.mu.Lock()
	park, lat, fault := d.Park, d.Latency, d.Fault
	var idx int
	if class == "read" {
		idx = d.reads
		d.reads++
	} else {
		idx = d.writes
		d.writes++
	}
	d.mu.Unlock()
	if Debug && d.Sim != nil {
		d.Sim.Log.Addf("diskop %s %s %s", d.Name, op, key)
	}
	var delay time.Duration
	if lat != nil {
		delay = lat(op)
	}
	if d.Sim != nil && (park || delay > 0) {
		// latency is served by the scheduler (not by a timer of our own), so
		// simultaneously due operations wake up in tape order
		d.Sim.YieldAfter("disk:"+d.Name+":"+op+":"+key, delay)
	}
	if fault != nil {
		if err := fault(class, op, key, idx); err != nil {
			if d.Sim != nil {
				d.Sim.Fault("disk-" + class + "-error")
				d.Sim.Log.Addf("disk %s %s %s -> injected error", d.Name, op, key)
			}
			if err == ErrInjected && d.ErrWraps != nil {
				// the same refusal, dressed as the kind of error a real datastore may wrap
				// (its own timeout, a cancelled compaction): callers must not read it as theirs
				err = fmt.Errorf("%w: %w", ErrInjected, d.ErrWraps)
			}
			return err
		}
	}
	return nil
}

func (d *Disk) commit(e Entry) {
	d.mu.Lock()
	if d.blackhole {
		d.mu.Unlock()
		return
	}
	d.apply(e)
	d.wlog = append(d.wlog, e)
	idx := len(d.wlog) - 1
	obs := d.Observe
	d.mu.Unlock()
	if d.Sim != nil {
		d.Sim.Log.Addf("disk %s #%d %s", d.Name, idx, e.Summary())
	}
	if obs != nil {
		obs(e, idx)
	}
}

func (e Entry) Summary() string {
	var b strings.Builder
	b.WriteString(e.Kind)
	for i, op := range e.Ops {
		if i >= 12 {
			fmt.Fprintf(&b, " …+%d", len(e.Ops)-i)
			break
		}
		k := op.Key
		if len(k) > 18 {
			k = k[:18] + "…"
		}
		if op.Del {
			b.WriteString(" -" + k)
		} else {
			b.WriteString(" +" + k)
		}
	}
	return b.String()
}

func (d *Disk) Get(ctx context.Context, key ds.Key) ([]byte, error) {
	if err := d.pre("read", "get", key.String()); err != nil {
		return nil, err
	}
	d.mu.Lock()
	defer d.mu.Unlock()
	v, ok := d.data[key.String()]
	if !ok {
		return nil, ds.ErrNotFound
	}
	return append([]byte(nil), v...), nil
}

func (d *Disk) Has(ctx context.Context, key ds.Key) (bool, error) {
	if err := d.pre("read", "has", key.String()); err != nil {
		return false, err
	}
	d.mu.Lock()
	defer d.mu.Unlock()
	_, ok := d.data[key.String()]
	return ok, nil
}

func (d *Disk) GetSize(ctx context.Context, key ds.Key) (int, error) {
	if err := d.pre("read", "size", key.String()); err != nil {
		return -1, err
	}
	d.mu.Lock()
	defer d.mu.Unlock()
	v, ok := d.data[key.String()]
	if !ok {
		return -1, ds.ErrNotFound
	}
	return len(v), nil
}

func (d *Disk) Query(ctx context.Context, q query.Query) (query.Results, error) {
	if err := d.pre("read", "query", q.Prefix); err != nil {
		return nil, err
	}
	d.mu.Lock()
	var es []query.Entry
	for k, v := range d.data {
		if strings.HasPrefix(k, q.Prefix) {
			es = append(es, query.Entry{Key: k, Value: append([]byte(nil), v...), Size: len(v)})
		}
	}
	d.mu.Unlock()
	sort.Slice(es, func(i, j int) bool { return es[i].Key < es[j].Key })
	return query.NaiveQueryApply(q, query.ResultsWithEntries(q, es)), nil
}

func (d *Disk) Put(ctx context.Context, key ds.Key, value []byte) error {
	if err := d.pre("write", "put", key.String()); err != nil {
		return err
	}
	d.commit(Entry{Kind: "put", Ops: []KV{{Key: key.String(), Val: append([]byte(nil), value...)}}})
	return nil
}

func (d *Disk) Delete(ctx context.Context, key ds.Key) error {
	if err := d.pre("write", "del", key.String()); err != nil {
		return err
	}
	d.commit(Entry{Kind: "del", Ops: []KV{{Del: true, Key: key.String()}}})
	return nil
}

func (d *Disk) Sync(ctx context.Context, prefix ds.Key) error { return nil }
func (d *Disk) Close() error                                  { return nil }

// --- batch -------------------------------------------------------------------

type batch struct {
	d   *Disk
	mu  sync.Mutex
	ops map[string]KV
}

func (d *Disk) Batch(ctx context.Context) (ds.Batch, error) {
	return &batch{d: d, ops: map[string]KV{}}, nil
}

func (b *batch) Put(ctx context.Context, key ds.Key, value []byte) error {
	b.mu.Lock()
	b.ops[key.String()] = KV{Key: key.String(), Val: append([]byte(nil), value...)}
	b.mu.Unlock()
	return nil
}

func (b *batch) Delete(ctx context.Context, key ds.Key) error {
	if b.d.FaultBatchOps {
		// a batch may refuse an operation (a transaction that is full, a closed handle)
		if err := b.d.pre("write", "batch-del", key.String()); err != nil {
			return err
		}
	}
	b.mu.Lock()
	b.ops[key.String()] = KV{Del: true, Key: key.String()}
	b.mu.Unlock()
	return nil
}

func (b *batch) Commit(ctx context.Context) error {
	b.mu.Lock()
	ops := make([]KV, 0, len(b.ops))
	for _, op := range b.ops {
		ops = append(ops, op)
	}
	b.mu.Unlock()
	// canonical order: the store fills batches by ranging over a Go map
	sort.Slice(ops, func(i, j int) bool { return ops[i].Key < ops[j].Key })
	if err := b.d.pre("write", "commit", fmt.Sprintf("%dops", len(ops))); err != nil {
		return err
	}
	if len(ops) == 0 {
		return nil
	}
	b.d.commit(Entry{Kind: "commit", Ops: ops})
	b.mu.Lock()
	b.ops = map[string]KV{}
	b.mu.Unlock()
	return nil
}

// --- read transactions (flavour "ctx") ----------------------------------------

// TxnDisk adds datastore.TxnDatastore. Read transactions are either read-through
// (they see the latest committed state: go-datastore promises no snapshot) or, with
// Snapshot set, snapshot-isolated the way badger's are: a transaction sees the
// datastore as it was when the transaction was opened.
type TxnDisk struct {
	*Disk
	Snapshot bool
}

type txn struct {
	d    *Disk
	snap map[string][]byte // nil = read-through
}

func (t TxnDisk) NewTransaction(ctx context.Context, readOnly bool) (ds.Txn, error) {
	if !readOnly {
		return nil, errors.New("simdisk: only read-only transactions")
	}
	t.Disk.Sim.Probe("read-txn")
	if !t.Snapshot {
		return &txn{d: t.Disk}, nil
	}
	t.Disk.Sim.Probe("read-txn-snapshot")
	t.Disk.mu.Lock()
	snap := make(map[string][]byte, len(t.Disk.data))
	for k, v := range t.Disk.data {
		snap[k] = v
	}
	t.Disk.mu.Unlock()
	return &txn{d: t.Disk, snap: snap}, nil
}

func (t *txn) Get(ctx context.Context, key ds.Key) ([]byte, error) {
	if t.snap == nil {
		return t.d.Get(ctx, key)
	}
	if err := t.d.pre("read", "get", key.String()); err != nil {
		return nil, err
	}
	v, ok := t.snap[key.String()]
	if !ok {
		return nil, ds.ErrNotFound
	}
	return append([]byte(nil), v...), nil
}

func (t *txn) Has(ctx context.Context, key ds.Key) (bool, error) {
	if t.snap == nil {
		return t.d.Has(ctx, key)
	}
	if err := t.d.pre("read", "has", key.String()); err != nil {
		return false, err
	}
	_, ok := t.snap[key.String()]
	return ok, nil
}

func (t *txn) GetSize(ctx context.Context, key ds.Key) (int, error) {
	if t.snap == nil {
		return t.d.GetSize(ctx, key)
	}
	if err := t.d.pre("read", "size", key.String()); err != nil {
		return -1, err
	}
	v, ok := t.snap[key.String()]
	if !ok {
		return -1, ds.ErrNotFound
	}
	return len(v), nil
}

func (t *txn) Query(ctx context.Context, q query.Query) (query.Results, error) {
	if t.snap == nil {
		return t.d.Query(ctx, q)
	}
	if err := t.d.pre("read", "query", q.Prefix); err != nil {
		return nil, err
	}
	var es []query.Entry
	for k, v := range t.snap {
		if strings.HasPrefix(k, q.Prefix) {
			es = append(es, query.Entry{Key: k, Value: append([]byte(nil), v...), Size: len(v)})
		}
	}
	sort.Slice(es, func(i, j int) bool { return es[i].Key < es[j].Key })
	return query.NaiveQueryApply(q, query.ResultsWithEntries(q, es)), nil
}
func (t *txn) Put(ctx context.Context, key ds.Key, value []byte) error {
	return errors.New("read-only")
}
func (t *txn) Delete(ctx context.Context, key ds.Key) error { return errors.New("read-only") }
func (t *txn) Commit(ctx context.Context) error             { return nil }
func (t *txn) Discard(ctx context.Context)                  {}

// Flavour wraps the disk the way an application would hand it to
// store.NewStore: "plain" = Batching only; "ctx" = context-aware datastore
// over a Batching+Txn disk (deletes are then collected in a context batch and
// reads go through read transactions); "snap" = the same with snapshot-isolated
// read transactions.
func (d *Disk) Flavour(f string) ds.Batching {
	switch f {
	case "ctx":
		return contextds.WrapDatastore(TxnDisk{Disk: d}).(ds.Batching)
	case "snap":
		return contextds.WrapDatastore(TxnDisk{Disk: d, Snapshot: true}).(ds.Batching)
	default:
		return d
	}
}

var (
	_ ds.Batching     = (*Disk)(nil)
	_ ds.TxnDatastore = TxnDisk{}
)
