// Package core holds the simulator kernel: the choice tape every decision is
// drawn from, the cooperative scheduler that sits on top of a testing/synctest
// bubble, the event log, violation records and the tape shrinker.
package core

import (
	"fmt"
	"hash/fnv"
	"io"
)

// Tape is the single source of nondeterminism of a run. In record mode the
// values come from a splitmix64 stream seeded by one integer; in replay mode
// they come from a recorded list (exhausted tape => zeros). 0 is always the
// "simplest" choice, which is what makes shrinking meaningful.
type Tape struct {
	seed    uint64
	state   uint64
	replay  []uint32
	replayM bool
	pos     int
	Rec     []uint32 // every value handed out, in order (already reduced mod n)
	Kinds   []string // parallel to Rec: what the draw was for (for traces only)
	// schedBias: in record mode a "biased" draw returns 0 with probability
	// (den-1)/den. Chosen per run by the scenario (swarm style).
	overrun int
	// Stream, if set, receives every value as it is drawn, so that the tape of a
	// run that kills the process can still be recovered.
	Stream io.Writer
}

func (t *Tape) record(kind string, v uint32) {
	t.Rec = append(t.Rec, v)
	t.Kinds = append(t.Kinds, kind)
	if t.Stream != nil {
		fmt.Fprintf(t.Stream, "%d\n", v)
	}
}

func NewTape(seed uint64) *Tape {
	return &Tape{seed: seed, state: seed ^ 0x9e3779b97f4a7c15}
}

func ReplayTape(vals []uint32) *Tape {
	return &Tape{replay: append([]uint32(nil), vals...), replayM: true}
}

func (t *Tape) Replaying() bool { return t.replayM }
func (t *Tape) Seed() uint64    { return t.seed }

func (t *Tape) next64() uint64 {
	t.state += 0x9e3779b97f4a7c15
	z := t.state
	z = (z ^ (z >> 30)) * 0xbf58476d1ce4e5b9
	z = (z ^ (z >> 27)) * 0x94d049bb133111eb
	return z ^ (z >> 31)
}

// Draw returns a value in [0,n). n<=1 returns 0 without consuming the tape.
func (t *Tape) Draw(kind string, n int) int {
	if n <= 1 {
		return 0
	}
	var v uint32
	if t.replayM {
		if t.pos < len(t.replay) {
			v = t.replay[t.pos] % uint32(n)
		} else {
			t.overrun++
		}
		t.pos++
	} else {
		v = uint32(t.next64() % uint64(n))
	}
	t.record(kind, v)
	return int(v)
}

// Biased returns 0 with probability (den-1)/den and otherwise a uniform value
// in [0,n). Used for scheduler picks and fault coins so that most decisions are
// the simple one. In replay mode the recorded value is used as is.
func (t *Tape) Biased(kind string, n, den int) int {
	if n <= 1 {
		return 0
	}
	if t.replayM {
		return t.Draw(kind, n)
	}
	var v uint32
	if den <= 1 || t.next64()%uint64(den) == 0 {
		v = uint32(t.next64() % uint64(n))
	}
	t.record(kind, v)
	return int(v)
}

// Coin is true with probability num/den; false is the simple outcome (0).
func (t *Tape) Coin(kind string, num, den int) bool {
	if num <= 0 {
		return false
	}
	if t.replayM {
		return t.Draw(kind, 2) == 1
	}
	var v uint32
	if t.next64()%uint64(den) < uint64(num) {
		v = 1
	}
	t.record(kind, v)
	return v == 1
}

// Pick draws an index into a list of options.
func Pick[T any](t *Tape, kind string, opts []T) T {
	return opts[t.Draw(kind, len(opts))]
}

// Range draws an integer in [lo,hi].
func (t *Tape) Range(kind string, lo, hi int) int {
	if hi <= lo {
		return lo
	}
	return lo + t.Draw(kind, hi-lo+1)
}

// DeriveSeed gives run r of a batch its own seed.
func DeriveSeed(base uint64, prop string, r uint64) uint64 {
	h := fnv.New64a()
	fmt.Fprintf(h, "%d/%s/%d", base, prop, r)
	s := h.Sum64()
	// one splitmix round to spread
	s += 0x9e3779b97f4a7c15
	s = (s ^ (s >> 30)) * 0xbf58476d1ce4e5b9
	s = (s ^ (s >> 27)) * 0x94d049bb133111eb
	return s ^ (s >> 31)
}
