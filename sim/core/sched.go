package core

import (
	"fmt"
	"hash/fnv"
	"io"
	"os"
	"runtime"
	"runtime/debug"
	"sort"
	"strconv"
	"strings"
	"sync"
	"testing/synctest"
	"time"
)

// Sim is one simulated run: tape + cooperative scheduler + log + findings.
// It must be created and driven from the root goroutine of a synctest bubble.
type Sim struct {
	Tape *Tape
	Log  *Log

	mu       sync.Mutex
	parked   []*parkRec
	arrive   uint64
	byGoid   map[uint64]*Task
	tasks    []*Task
	tokens   map[string]uint64 // token name -> holder goid (0 = free)
	lastGoid uint64
	rootGoid uint64 // the goroutine that drives the scheduler: it never parks
	draining bool

	// SchedDen biases scheduler picks: 0 ("continue the goroutine that ran
	// last, else first in canonical order") is taken with probability
	// (den-1)/den. Set per run from the tape.
	SchedDen int

	Steps     int
	MaxSteps  int
	Preempts  int
	decisions uint64 // running FNV of scheduler decisions
	start     time.Time

	// AutoMode selects which of the mechanically inserted park points (sim/autoyield) are
	// live in this run: 0 none, 1 a pseudo-random quarter of the sites (AutoSalt), 2 all.
	AutoMode int
	AutoSalt uint64
	// AutoStall > 0 lets one auto park in sixteen last up to that much virtual time (scenarios
	// whose oracles do not time go-header opt in).
	AutoStall time.Duration
	held     map[uint64]int // goroutine -> sync.Mutex/RWMutex locks it holds (instrumented code only)
	autoHits int

	Violations []Violation
	Faults     map[string]int
	Probes     map[string]int
	Aborted    string // harness trouble (step cap etc.), never a violation
}

type parkRec struct {
	notBefore time.Time // zero = may run at once
	label string
	task  string
	goid  uint64
	seq   uint64
	token string
	ch    chan struct{}
}

// Task is a goroutine started by the simulator (a client, a gossip delivery, a
// peer reply...). Its panics are recovered and reported to the scenario.
type Task struct {
	Name  string
	done  chan struct{}
	Done  bool
	Panic any
	Stack string
}

func NewSim(t *Tape) *Sim {
	s := &Sim{
		Tape:     t,
		byGoid:   map[uint64]*Task{},
		tokens:   map[string]uint64{},
		SchedDen: 1,
		MaxSteps: 200000,
		Faults:   map[string]int{},
		Probes:   map[string]int{},
		held:     map[uint64]int{},
		start:    time.Now(),
		rootGoid: goid(),
	}
	s.Log = &Log{start: s.start}
	return s
}

// Now is virtual time elapsed since the run started.
func (s *Sim) Now() time.Duration { return time.Since(s.start) }

func goid() uint64 {
	var buf [64]byte
	n := runtime.Stack(buf[:], false)
	// "goroutine 123 ["
	f := strings.Fields(string(buf[:n]))
	if len(f) < 2 {
		return 0
	}
	id, _ := strconv.ParseUint(f[1], 10, 64)
	return id
}

// Go starts a task. The task parks at once ("start"), so when it first runs is
// a scheduler decision.
func (s *Sim) Go(name string, fn func()) *Task {
	t := &Task{Name: name, done: make(chan struct{})}
	s.mu.Lock()
	s.tasks = append(s.tasks, t)
	s.mu.Unlock()
	go func() {
		id := goid()
		s.mu.Lock()
		s.byGoid[id] = t
		s.mu.Unlock()
		defer func() {
			if r := recover(); r != nil {
				t.Panic = r
				t.Stack = string(debug.Stack())
			}
			s.mu.Lock()
			delete(s.byGoid, id)
			t.Done = true
			s.mu.Unlock()
			close(t.done)
		}()
		s.Yield("start")
		fn()
	}()
	return t
}

// Yield is a park point: the calling goroutine blocks (durably, on its own
// channel) until the scheduler releases it. Safe to call from any goroutine in
// the bubble, including go-header's own (flushLoop, syncLoop, ...).
func (s *Sim) Yield(label string) { s.park(label, "", time.Time{}) }

// YieldAfter is a park point that additionally costs d of virtual time: the
// goroutine becomes eligible only once the clock has reached now+d. Delays of
// simulated seams go through here instead of through timers of their own, so
// that the order in which simultaneously due goroutines wake up is a tape
// decision and not a race between runtime timers.
func (s *Sim) YieldAfter(label string, d time.Duration) {
	if d <= 0 {
		s.park(label, "", time.Time{})
		return
	}
	s.park(label, "", time.Now().Add(d))
}

// LockDepth is told by instrumented code about every Lock (+1) / Unlock (-1) of the calling
// goroutine. A goroutine that holds a real mutex must not be parked: one that then blocks on
// that mutex is not durably blocked for testing/synctest and the bubble would never settle.
func (s *Sim) LockDepth(delta int) {
	if s == nil || s.AutoMode == 0 {
		return
	}
	id := goid()
	s.mu.Lock()
	if n := s.held[id] + delta; n > 0 {
		s.held[id] = n
	} else {
		delete(s.held, id)
	}
	s.mu.Unlock()
}

// AutoYield is the park point inserted before statements that lock or touch atomics.
func (s *Sim) AutoYield(site string) {
	if s == nil || s.AutoMode == 0 {
		return
	}
	if s.AutoMode == 1 {
		h := fnv.New64a()
		h.Write([]byte(site))
		if (h.Sum64()^s.AutoSalt)%4 != 0 {
			return
		}
	}
	id := goid()
	s.mu.Lock()
	holds := s.held[id] > 0
	if !holds {
		s.autoHits++
	}
	n := s.autoHits
	s.mu.Unlock()
	if holds {
		return
	}
	var notBefore time.Time
	if s.AutoStall > 0 {
		// a goroutine that is descheduled for a while at this point (one park in sixteen): virtual
		// time only passes when nobody can run, so without this nothing that takes time
		// (a network round trip, a timer) can ever overtake a goroutine parked here
		h := fnv.New64a()
		fmt.Fprintf(h, "%s/%d/%d", site, s.AutoSalt, n)
		if v := h.Sum64(); v%16 == 0 {
			notBefore = time.Now().Add(time.Millisecond + time.Duration((v>>8)%uint64(s.AutoStall)))
		}
	}
	s.park("auto:"+site, "", notBefore)
}

// AutoHits is how many mechanically inserted park points were taken in this run.
func (s *Sim) AutoHits() int { s.mu.Lock(); defer s.mu.Unlock(); return s.autoHits }

// Acquire takes a scheduler-level token before a real mutex that go-header
// holds across blocking calls. A goroutine waiting for the token is durably
// blocked (channel), unlike one waiting on a sync.Mutex, so the bubble can
// still reach quiescence.
func (s *Sim) Acquire(name string) { s.park("acquire:"+name, name, time.Time{}) }

func (s *Sim) Release(name string) {
	s.mu.Lock()
	s.tokens[name] = 0
	s.mu.Unlock()
}

func (s *Sim) park(label, token string, notBefore time.Time) {
	if s == nil {
		return
	}
	s.mu.Lock()
	if s.draining {
		if token != "" {
			// during teardown tokens are not enforced
		}
		s.mu.Unlock()
		return
	}
	id := goid()
	if id == s.rootGoid {
		// the scenario itself calling into instrumented code (registering a handler, reading
		// a getter): it is the one who steps the others, parking it would stop the world
		s.mu.Unlock()
		return
	}
	name := ""
	if t := s.byGoid[id]; t != nil {
		name = t.Name
	}
	s.arrive++
	p := &parkRec{label: label, task: name, goid: id, seq: s.arrive, token: token, notBefore: notBefore, ch: make(chan struct{})}
	s.parked = append(s.parked, p)
	s.mu.Unlock()
	<-p.ch
}

// enabled returns the parked goroutines that may run now, canonically ordered.
func (s *Sim) enabled() []*parkRec {
	var en []*parkRec
	now := time.Now()
	for _, p := range s.parked {
		if p.token != "" && s.tokens[p.token] != 0 {
			continue
		}
		if !p.notBefore.IsZero() && now.Before(p.notBefore) {
			continue
		}
		en = append(en, p)
	}
	sort.SliceStable(en, func(i, j int) bool {
		if en[i].label != en[j].label {
			return en[i].label < en[j].label
		}
		if en[i].task != en[j].task {
			return en[i].task < en[j].task
		}
		return en[i].seq < en[j].seq
	})
	return en
}

// Step waits for quiescence and releases exactly one parked goroutine chosen by
// the tape. It reports false when nothing is parked (idle).
func (s *Sim) Step() bool {
	synctest.Wait()
	s.mu.Lock()
	en := s.enabled()
	if len(en) == 0 {
		s.mu.Unlock()
		return false
	}
	// choice 0 = keep running the goroutine that ran last if it is parked
	// again, else the first in canonical order.
	order := en
	for i, p := range en {
		if p.goid == s.lastGoid && i != 0 {
			order = append([]*parkRec{p}, append(append([]*parkRec(nil), en[:i]...), en[i+1:]...)...)
			break
		}
	}
	c := 0
	if len(order) > 1 {
		c = s.Tape.Biased("sched", len(order), s.SchedDen)
		if c != 0 {
			s.Preempts++
		}
	}
	p := order[c]
	for i, q := range s.parked {
		if q == p {
			s.parked = append(s.parked[:i], s.parked[i+1:]...)
			break
		}
	}
	if p.token != "" {
		s.tokens[p.token] = p.goid
	}
	s.lastGoid = p.goid
	s.Steps++
	h := fnv.New64a()
	fmt.Fprintf(h, "%x|%s|%s|%d", s.decisions, p.label, p.task, len(order))
	s.decisions = h.Sum64()
	s.mu.Unlock()
	s.Log.Addf("sched %d/%d -> %s [%s]", c, len(order), p.label, p.task)
	close(p.ch)
	if s.Steps > s.MaxSteps && s.Aborted == "" {
		s.Aborted = fmt.Sprintf("step cap %d exceeded", s.MaxSteps)
	}
	return true
}

// nextDue returns the earliest wake-up time among goroutines parked with a
// delay that has not elapsed yet.
func (s *Sim) nextDue() (time.Time, bool) {
	s.mu.Lock()
	defer s.mu.Unlock()
	var best time.Time
	now := time.Now()
	for _, p := range s.parked {
		if p.notBefore.IsZero() || !now.Before(p.notBefore) {
			continue
		}
		if best.IsZero() || p.notBefore.Before(best) {
			best = p.notBefore
		}
	}
	return best, !best.IsZero()
}

// Settle drives the simulation until all given tasks have finished and nothing
// is parked, advancing virtual time in growing quanta while idle. It returns
// the tasks still unfinished once maxVirtual has elapsed (nil = all done).
func (s *Sim) Settle(maxVirtual time.Duration, tasks ...*Task) []*Task {
	deadline := time.Now().Add(maxVirtual)
	q := time.Millisecond
	for s.Aborted == "" {
		if s.Step() {
			q = time.Millisecond
			continue
		}
		var stuck []*Task
		s.mu.Lock()
		for _, t := range tasks {
			if !t.Done {
				stuck = append(stuck, t)
			}
		}
		s.mu.Unlock()
		if len(stuck) == 0 {
			return nil
		}
		left := time.Until(deadline)
		if left <= 0 {
			return stuck
		}
		if due, ok := s.nextDue(); ok {
			// jump exactly to the next simulated event
			d := time.Until(due)
			if d > left {
				d = left
			}
			time.Sleep(d)
			q = time.Millisecond
			continue
		}
		if q > left {
			q = left
		}
		time.Sleep(q)
		if q < time.Minute {
			q *= 2
		}
	}
	return tasks
}

// Sleep advances virtual time by d on the root goroutine and then waits for
// every goroutine woken in the meantime to block again, so that the root never
// draws from the tape while something else is still running.
func (s *Sim) Sleep(d time.Duration) {
	time.Sleep(d)
	synctest.Wait()
}

// Sub derives an independent choice stream for a seam whose decisions are made
// inside go-header's own goroutines (so they cannot interleave with the root's
// draws). Its seed is one draw of the main tape.
func (s *Sim) Sub(kind string) *Tape {
	return NewTape(uint64(s.Tape.Draw("substream:"+kind, 1<<30)) + 0x51ed270b)
}

// Quiesce runs until nothing is parked, letting `idle` of virtual time pass
// with nothing happening (background goroutines get a chance to use timers).
func (s *Sim) Quiesce(idle time.Duration) {
	for s.Aborted == "" {
		if s.Step() {
			continue
		}
		if due, ok := s.nextDue(); ok && idle > 0 {
			d := time.Until(due)
			if d > idle {
				d = idle
			}
			time.Sleep(d)
			idle -= d
			continue
		}
		if idle <= 0 {
			return
		}
		time.Sleep(idle)
		idle = 0
	}
}

// Do runs fn as a task and settles until it is done.
func (s *Sim) Do(name string, maxVirtual time.Duration, fn func()) (t *Task, finished bool) {
	t = s.Go(name, fn)
	stuck := s.Settle(maxVirtual, t)
	return t, len(stuck) == 0
}

// Drain releases every parked goroutine and turns all park points into no-ops,
// so that teardown (Stop, Close, context cancellation) can complete.
func (s *Sim) Drain() {
	s.Log.Freeze()
	s.mu.Lock()
	s.draining = true
	ps := s.parked
	s.parked = nil
	s.mu.Unlock()
	for _, p := range ps {
		close(p.ch)
	}
}

func (s *Sim) TaskPanics() []*Task {
	s.mu.Lock()
	defer s.mu.Unlock()
	var out []*Task
	for _, t := range s.tasks {
		if t.Panic != nil {
			out = append(out, t)
		}
	}
	return out
}

func (s *Sim) DecisionHash() uint64 { return s.decisions }

func (s *Sim) Fault(kind string) { s.mu.Lock(); s.Faults[kind]++; s.mu.Unlock() }
func (s *Sim) Probe(kind string) { s.mu.Lock(); s.Probes[kind]++; s.mu.Unlock() }

// Violation is one failed oracle. Class + Attrs identify *what kind* of
// failure it is (used for shrinking and for known-finding matching); Detail is
// free text for the reader.
type Violation struct {
	Class  string            `json:"class"`
	Attrs  map[string]string `json:"attrs,omitempty"`
	Detail string            `json:"detail"`
	AtStep int               `json:"at_step"`
	AtVirt string            `json:"at_virtual"`
}

func (v Violation) Key() string {
	keys := make([]string, 0, len(v.Attrs))
	for k := range v.Attrs {
		keys = append(keys, k)
	}
	sort.Strings(keys)
	var b strings.Builder
	b.WriteString(v.Class)
	for _, k := range keys {
		fmt.Fprintf(&b, " %s=%s", k, v.Attrs[k])
	}
	return b.String()
}

func (s *Sim) Violate(class string, attrs map[string]string, format string, args ...any) {
	v := Violation{Class: class, Attrs: attrs, Detail: fmt.Sprintf(format, args...), AtStep: s.Steps, AtVirt: s.Now().String()}
	if s.Aborted != "" {
		// the harness gave up on this run (step cap): whatever is observed from here on is
		// a consequence of that, not of the code under test
		s.Log.Addf("suppressed after abort (%s): %s: %s", s.Aborted, v.Key(), v.Detail)
		return
	}
	s.mu.Lock()
	s.Violations = append(s.Violations, v)
	s.mu.Unlock()
	s.Log.Addf("VIOLATION %s: %s", v.Key(), v.Detail)
	if DebugStacks && TraceOut != nil {
		buf := make([]byte, 1<<20)
		n := runtime.Stack(buf, true)
		fmt.Fprintf(TraceOut, "=== goroutines at violation ===\n%s\n", buf[:n])
	}
}

func (s *Sim) Failed() bool {
	s.mu.Lock()
	defer s.mu.Unlock()
	return len(s.Violations) > 0 || s.Aborted != ""
}

// Log is the simulator-level event log. It never draws from the tape and only
// reads the (fake) bubble clock.
type Log struct {
	frozen bool
	mu    sync.Mutex
	start time.Time
	lines []string
	n     int
	h     uint64
}

const maxLogLines = 600

// TraceOut, if set, receives every log line as it is produced (replay mode:
// the trace survives a run that kills the process).
var TraceOut io.Writer

// DebugStacks dumps all goroutine stacks at the first violation (VERIF_DEBUG=1).
var DebugStacks = os.Getenv("VERIF_DEBUG") == "1"

func (l *Log) Addf(format string, args ...any) {
	line := fmt.Sprintf("t=%v ", time.Since(l.start)) + fmt.Sprintf(format, args...)
	if TraceOut != nil {
		fmt.Fprintln(TraceOut, line)
	}
	l.mu.Lock()
	if l.frozen {
		l.mu.Unlock()
		return
	}
	hh := fnv.New64a()
	fmt.Fprintf(hh, "%x|%s", l.h, line)
	l.h = hh.Sum64()
	l.n++
	if len(l.lines) < maxLogLines {
		l.lines = append(l.lines, line)
	}
	l.mu.Unlock()
}

// Freeze stops recording: teardown is not part of the deterministic history.
func (l *Log) Freeze() { l.mu.Lock(); l.frozen = true; l.mu.Unlock() }

func (l *Log) Hash() uint64 { l.mu.Lock(); defer l.mu.Unlock(); return l.h }
func (l *Log) Lines() []string {
	l.mu.Lock()
	defer l.mu.Unlock()
	out := append([]string(nil), l.lines...)
	if l.n > len(l.lines) {
		out = append(out, fmt.Sprintf("... %d more lines", l.n-len(l.lines)))
	}
	return out
}
