package core

import "time"

// Shrink minimises a failing tape. run executes the scenario on a candidate
// tape and returns the violation class key it produced ("" if none). A
// candidate is kept iff it produces the same key as the original failure.
// The result is the smallest tape found within the budget; zeros at the end
// are trimmed (an exhausted tape reads as zeros).
func Shrink(tape []uint32, want string, run func([]uint32) string, maxRuns int, maxWall time.Duration) (best []uint32, runs int) {
	best = trimZeros(append([]uint32(nil), tape...))
	t0 := time.Now()
	try := func(c []uint32) bool {
		if runs >= maxRuns || time.Since(t0) > maxWall {
			return false
		}
		runs++
		return run(c) == want
	}
	over := func() bool { return runs >= maxRuns || time.Since(t0) > maxWall }

	improved := true
	for improved && !over() {
		improved = false
		// 1. truncate (suffix becomes zeros): binary search the shortest prefix.
		lo, hi := 0, len(best)
		for lo < hi && !over() {
			mid := (lo + hi) / 2
			if try(best[:mid]) {
				hi = mid
			} else {
				lo = mid + 1
			}
		}
		if hi < len(best) {
			best = trimZeros(append([]uint32(nil), best[:hi]...))
			improved = true
		}
		// 2. delete blocks
		for _, k := range []int{32, 16, 8, 4, 2, 1} {
			for i := 0; i+k <= len(best) && !over(); {
				c := append(append([]uint32(nil), best[:i]...), best[i+k:]...)
				if try(c) {
					best = trimZeros(c)
					improved = true
				} else {
					i += k
				}
			}
		}
		// 3. zero blocks
		for _, k := range []int{8, 4, 2, 1} {
			for i := 0; i+k <= len(best) && !over(); i += k {
				allz := true
				for _, v := range best[i : i+k] {
					if v != 0 {
						allz = false
					}
				}
				if allz {
					continue
				}
				c := append([]uint32(nil), best...)
				for j := i; j < i+k; j++ {
					c[j] = 0
				}
				if try(c) {
					best = trimZeros(c)
					improved = true
				}
			}
		}
		// 4. lower single values
		for i := 0; i < len(best) && !over(); i++ {
			v := best[i]
			if v == 0 {
				continue
			}
			for _, nv := range []uint32{v / 2, v - 1} {
				if nv >= v {
					continue
				}
				c := append([]uint32(nil), best...)
				c[i] = nv
				if try(c) {
					best = trimZeros(c)
					improved = true
					break
				}
			}
		}
	}
	return best, runs
}

func trimZeros(t []uint32) []uint32 {
	for len(t) > 0 && t[len(t)-1] == 0 {
		t = t[:len(t)-1]
	}
	return t
}
