package props

import (
	"context"
	"fmt"
	"sync"
	"time"

	header "github.com/celestiaorg/go-header"
	"github.com/celestiaorg/go-header/p2p"
	"github.com/celestiaorg/go-header/store"

	"verifsim/core"
	"verifsim/simdisk"
)

// RecStore is a recording / delaying proxy around the real Store that an
// ExchangeServer reads from.
type RecStore struct {
	*store.Store[*H]
	S    *core.Sim
	Name string
	mu   sync.Mutex
	// Reads counts header reads: GetRange(a,b) counts b-a, single lookups count 1.
	Reads    uint64
	MaxRange uint64
	Calls    []string
	// Delay is applied (virtual time, through the scheduler) to every reading call.
	Delay func(call string) time.Duration
	// FailRange, if set, may fail a GetRange with an I/O error of the server's own store
	FailRange func(from, to uint64) error
}

func (r *RecStore) note(ctx context.Context, call string, n uint64) {
	r.mu.Lock()
	r.Reads += n
	if n > r.MaxRange {
		r.MaxRange = n
	}
	r.Calls = append(r.Calls, call)
	d := r.Delay
	r.mu.Unlock()
	var delay time.Duration
	if d != nil {
		delay = d(call)
	}
	if delay > 0 {
		// a slow store still honours the caller's deadline
		if dl, ok := ctx.Deadline(); ok {
			if left := time.Until(dl); left < delay {
				delay = max(left, 0)
			}
		}
		r.S.YieldAfter("store:"+r.Name+":"+call, delay)
	}
}

func (r *RecStore) ResetCounts() {
	r.mu.Lock()
	r.Reads, r.MaxRange, r.Calls = 0, 0, nil
	r.mu.Unlock()
}

func (r *RecStore) Counts() (uint64, uint64, []string) {
	r.mu.Lock()
	defer r.mu.Unlock()
	return r.Reads, r.MaxRange, append([]string(nil), r.Calls...)
}

// after is a park point behind a store call (only when the proxy is delaying at all): the server
// has its answer and something else may happen before it acts on it.
func (r *RecStore) after(call string) {
	r.mu.Lock()
	d := r.Delay
	r.mu.Unlock()
	if d != nil {
		r.S.Yield("store:" + r.Name + ":" + call + ":done")
	}
}

func (r *RecStore) Head(ctx context.Context, o ...header.HeadOption[*H]) (*H, error) {
	r.note(ctx, "Head", 1)
	if err := ctx.Err(); err != nil {
		return nil, err
	}
	h, err := r.Store.Head(ctx, o...)
	r.after("Head")
	return h, err
}

func (r *RecStore) Get(ctx context.Context, h header.Hash) (*H, error) {
	r.note(ctx, "Get", 1)
	return r.Store.Get(ctx, h)
}

func (r *RecStore) GetByHeight(ctx context.Context, h uint64) (*H, error) {
	r.note(ctx, fmt.Sprintf("GetByHeight(%d)", h), 1)
	return r.Store.GetByHeight(ctx, h)
}

func (r *RecStore) GetRange(ctx context.Context, from, to uint64) ([]*H, error) {
	n := uint64(0)
	if to > from {
		n = to - from
	}
	r.note(ctx, fmt.Sprintf("GetRange(%d,%d)", from, to), n)
	if err := ctx.Err(); err != nil {
		return nil, err
	}
	r.mu.Lock()
	fail := r.FailRange
	r.mu.Unlock()
	if fail != nil {
		if err := fail(from, to); err != nil {
			// the server's store has a hiccup: the server gives up on this request (stream reset)
			return nil, err
		}
	}
	return r.Store.GetRange(ctx, from, to)
}

func (r *RecStore) GetRangeByHeight(ctx context.Context, from *H, to uint64) ([]*H, error) {
	n := uint64(0)
	if to > from.Height()+1 {
		n = to - from.Height() - 1
	}
	r.note(ctx, fmt.Sprintf("GetRangeByHeight(%d,%d)", from.Height(), to), n)
	return r.Store.GetRangeByHeight(ctx, from, to)
}

// XServer is a real ExchangeServer on host i over a real Store holding tail..head.
type XServer struct {
	Idx        int
	Rec        *RecStore
	Srv        *p2p.ExchangeServer[*H]
	Tail, Head uint64
}

// AddServer fills a fresh Store with chain[first..head], prunes it to tail and
// serves it from host i.
func (w *XW) AddServer(i int, tail, head uint64, opts ...p2p.Option[p2p.ServerParameters]) (*XServer, error) {
	var err error
	xs := &XServer{Idx: i, Tail: tail, Head: head}
	// lifecycle: some servers have been stopped and started again (the same object) before they serve
	restarted := w.S.Tape.Coin("server-restarted", 1, 6)
	if restarted {
		w.S.Probe("server-restarted")
	}
	_, fin := w.S.Do(fmt.Sprintf("start-server%d", i), 10*time.Minute, func() {
		disk := simdisk.New(fmt.Sprintf("srv%d", i), w.S)
		var st *store.Store[*H]
		st, err = store.NewStore[*H](disk, store.WithParams(store.Parameters{WriteBatchSize: 16, StoreCacheSize: 64, IndexCacheSize: 64}))
		if err != nil {
			return
		}
		ctx := context.Background()
		if err = st.Start(ctx); err != nil {
			return
		}
		if err = st.Append(ctx, w.Ch.Range(w.Ch.First, head)...); err != nil {
			return
		}
		if err = st.Sync(ctx); err != nil {
			return
		}
		if tail > w.Ch.First {
			if err = st.DeleteRange(ctx, w.Ch.First, tail); err != nil {
				return
			}
		}
		xs.Rec = &RecStore{Store: st, S: w.S, Name: fmt.Sprintf("srv%d", i)}
		all := append([]p2p.Option[p2p.ServerParameters]{p2p.WithNetworkID[p2p.ServerParameters](xNetworkID)}, opts...)
		if w.Metrics {
			all = append(all, p2p.WithMetrics[p2p.ServerParameters]())
		}
		xs.Srv, err = p2p.NewExchangeServer[*H](w.Hosts[i], xs.Rec, all...)
		if err != nil {
			return
		}
		err = xs.Srv.Start(ctx)
		if err == nil && restarted {
			if err = xs.Srv.Stop(ctx); err == nil {
				err = xs.Srv.Start(ctx)
			}
		}
	})
	if !fin && err == nil {
		err = fmt.Errorf("server %d start did not finish", i)
	}
	w.servers = append(w.servers, xs)
	return xs, err
}
