package props

import (
	"context"
	"errors"
	"fmt"
	"sync"
	"time"

	header "github.com/celestiaorg/go-header"
	"github.com/celestiaorg/go-header/p2p"
	p2p_pb "github.com/celestiaorg/go-header/p2p/pb"

	"verifsim/core"
	"verifsim/simhdr"
)

// C13 - Exchange.Get/GetByHeight return only validated, correctly bound headers.
// C09 - Exchange.Head returns the quorum/highest head and honours the trusted head.
func init() {
	register(&Scenario{ID: "C13", World: "X", Run: runC13})
	register(&Scenario{ID: "C09", World: "X", Run: runC09})
}

var c13Kinds = []string{"honest", "honest", "other-header", "wrong-chain", "empty-chain", "bad-validate", "empty-body", "notfound", "unknown-status",
	"zero-responses", "two-responses", "oversized", "truncated", "garbage", "hang", "reset", "slow"}

func runC13(s *core.Sim, tier string) RunInfo {
	simhdr.Reset()
	np := 1 + s.Tape.Draw("peers", 4)
	w, err := newXW(s, np)
	if err != nil {
		s.Aborted = "mocknet: " + err.Error()
		return RunInfo{}
	}
	defer w.teardown()
	w.Ch = simhdr.NewChain("sim-chain", 1, time.Now().Add(-10*time.Hour), 3*time.Second)
	timeout := core.Pick(s.Tape, "req-timeout", []time.Duration{300 * time.Millisecond, time.Second})
	rng := s.Sub("peers")
	target := w.Ch.At(uint64(3 + s.Tape.Draw("target", 50)))
	byHash := s.Tape.Coin("by-hash", 1, 2)
	var desc []string
	type sent struct {
		h     *H
		valid bool // decodable + Validate + right chain, as first response
		late  bool // sent after the request timeout: may or may not count
	}
	sentBy := make([]sent, np+1)
	var memoMu sync.Mutex
	var trusted []int
	for i := 1; i <= np; i++ {
		kind := core.Pick(s.Tape, "kind", c13Kinds)
		desc = append(desc, fmt.Sprintf("peer%d=%s", i, kind))
		trusted = append(trusted, i)
		i := i
		var memo *Reply // a peer answers every request of a run alike (two callers may ask it)
		w.AddScriptPeer(i, func(n int, req *p2p_pb.HeaderRequest) (r Reply) {
			memoMu.Lock()
			if memo != nil {
				r = *memo
				memoMu.Unlock()
				return r
			}
			memoMu.Unlock()
			defer func() {
				memoMu.Lock()
				memo = &r
				memoMu.Unlock()
			}()
			r = Reply{Kind: kind, Service: time.Duration(10+rng.Draw("svc", 100)) * time.Millisecond}
			switch kind {
			case "honest":
				r.Frames = okFrames(target)
				sentBy[i] = sent{target, true, false}
			case "other-header":
				o := w.Ch.At(target.Height() + 1 + uint64(rng.Draw("other", 5)))
				r.Frames = okFrames(o)
				sentBy[i] = sent{o, true, false}
			case "wrong-chain":
				x := simhdr.WrongChain(target)
				r.Frames = okFrames(x)
				sentBy[i] = sent{x, false, false}
			case "empty-chain":
				c := simhdr.Clone(target)
				c.Chain = ""
				x := c.Sign()
				r.Frames = okFrames(x)
				sentBy[i] = sent{x, false, false}
			case "bad-validate":
				c := simhdr.Clone(target)
				c.BadValidate = true
				r.Frames = okFrames(c.Sign())
			case "empty-body":
				r.Frames = []frame{{status: p2p_pb.StatusCode_OK}}
			case "notfound":
				r.Frames = []frame{notFoundFrame()}
			case "unknown-status":
				f := hdrFrame(target)
				// any int32 a peer can put on the wire that is not one of the three known codes
				f.status = p2p_pb.StatusCode(core.Pick(rng, "code", []int{3, 4, 5, 100, 1000, 1 << 30, 1<<31 - 1, -1, -2, -1000, -1 << 31}))
				r.Frames = []frame{f}
			case "zero-responses":
			case "two-responses":
				r.Frames = okFrames(target, w.Ch.At(target.Height()+1))
				sentBy[i] = sent{target, true, false}
			case "oversized":
				r.Frames = []frame{{raw: []byte{0xff, 0xff, 0xff, 0xff, 0x7f, 1, 2, 3}}}
			case "truncated":
				r.Frames = []frame{{raw: truncatedFrame(target)}}
			case "garbage":
				r.Frames = []frame{{raw: garbage(s, 1+rng.Draw("glen", 200))}}
			case "hang":
				r.Hang = true
			case "reset":
				r.Reset = true
			case "slow":
				r.Frames = okFrames(target)
				sentBy[i] = sent{target, true, true}
				r.Service = timeout + time.Duration(1+rng.Draw("slow", 500))*time.Millisecond
			}
			return r
		})
	}
	if err := w.StartClient(w.PeerIDs(trusted...), trusted, p2p.WithRequestTimeout[p2p.ClientParameters](timeout)); err != nil {
		s.Aborted = "client start: " + err.Error()
		return RunInfo{}
	}
	if s.Tape.Coin("exchange-restarted", 1, 5) {
		// the same Exchange object is stopped and started again before it is asked
		var rerr error
		_, rfin := s.Do("exchange-restart", time.Minute, func() {
			c, cancel := context.WithTimeout(context.Background(), 30*time.Second)
			defer cancel()
			if rerr = w.Ex.Stop(c); rerr == nil {
				rerr = w.Ex.Start(c)
			}
		})
		if !rfin || rerr != nil {
			s.Violate("restart-error", nil, "Stop+Start of the same Exchange: finished=%v err=%v", rfin, rerr)
			return RunInfo{Nontrivial: true, Evals: 1}
		}
		s.Quiesce(500 * time.Millisecond)
		desc = append(desc, "Exchange restarted")
		s.Probe("same-exchange-restarted")
	}
	if s.Tape.Coin("no-tracked-peers", 1, 4) {
		// every connection is lost before the call: the peer tracker knows nobody, the trusted
		// peers are dialled again by the request itself
		for _, i := range trusted {
			_ = w.Net.DisconnectPeers(w.Hosts[0].ID(), w.Hosts[i].ID())
		}
		s.Quiesce(500 * time.Millisecond)
		desc = append(desc, "nobody tracked")
		s.Probe("request-with-empty-tracker")
	}
	deadline := 3 * time.Second
	var got *H
	var gerr error
	op := "GetByHeight"
	if byHash {
		op = "Get"
	}
	// sometimes the Exchange is stopped while the request is in flight (the caller's own context is
	// fine): the request ends with a header some peer validly sent, or with an error
	stopped := s.Tape.Coin("exchange-stopped-mid-request", 1, 6)
	var stopT *core.Task
	restartAtOnce := stopped && s.Tape.Coin("exchange-restarted-at-once", 1, 2)
	if restartAtOnce {
		s.Probe("exchange-restarted-mid-request")
	}
	if stopped {
		stopT = s.Go("exchange-stop", func() {
			s.YieldAfter("stop-after", time.Duration(s.Tape.Draw("stop-after-ms", 400))*time.Millisecond)
			c, cancel := context.WithTimeout(context.Background(), time.Minute)
			defer cancel()
			_ = w.Ex.Stop(c)
			if restartAtOnce {
				// ... and started again at once (a restart of the component, the request still in flight)
				_ = w.Ex.Start(c)
			}
		})
		desc = append(desc, "Exchange stopped mid-request")
		s.Probe("exchange-stopped-mid-request")
	}
	ask := func(ctx context.Context) (*H, error) {
		if byHash {
			return w.Ex.Get(ctx, target.Hash())
		}
		return w.Ex.GetByHeight(ctx, target.Height())
	}
	// a second caller on the same Exchange at the same time: the same request (judged alike) or a
	// Head (which shares the trusted-peer list with it)
	second := core.Pick(s.Tape, "second-caller", []string{"", "", "same", "head"})
	var got2 *H
	var gerr2 error
	var t2 *core.Task
	if second != "" {
		s.Probe("second-caller-" + second)
		t2 = s.Go("second-"+second, func() {
			ctx, cancel := context.WithTimeout(context.Background(), deadline)
			defer cancel()
			if second == "same" {
				got2, gerr2 = ask(ctx)
			} else {
				_, _ = w.Ex.Head(ctx)
			}
		})
	}
	t := s.Go(op, func() {
		ctx, cancel := context.WithTimeout(context.Background(), deadline)
		defer cancel()
		got, gerr = ask(ctx)
	})
	fin := true
	waitFor := []*core.Task{t}
	if t2 != nil {
		waitFor = append(waitFor, t2)
	}
	for _, st := range s.Settle(deadline+2*time.Second, waitFor...) {
		_ = st
		fin = false
	}
	if fin && t2 != nil && t2.Panic != nil {
		t = t2
	}
	if stopped {
		s.Settle(2*time.Minute, stopT)
		stoppedEx := w.Ex
		if !restartAtOnce {
			w.Ex = nil // stopped already
		}
		if t.Panic != nil {
			s.Violate("panic", map[string]string{"op": op, "racing": "stop"}, "%s panicked while the Exchange was being stopped: %v\n%s", op, t.Panic, t.Stack)
		} else if !fin {
			s.Violate("hang", map[string]string{"op": op, "racing": "stop"}, "%s did not return after the Exchange was stopped [%v]", op, desc)
		} else if gerr == nil && got == nil {
			s.Violate("zero-header-nil-error", map[string]string{"op": op, "racing": "stop"}, "%s returned a zero header and a nil error when the Exchange was stopped mid-request [%v]", op, desc)
		}
		if !restartAtOnce && len(s.Violations) == 0 {
			// asked again after it was stopped, the Exchange answers with an error (or with a header a
			// peer validly sent): no panic, no hang
			var got3 *H
			var gerr3 error
			t3, fin3 := s.Do(op+"-after-stop", deadline+2*time.Second, func() {
				ctx, cancel := context.WithTimeout(context.Background(), deadline)
				defer cancel()
				if byHash {
					got3, gerr3 = stoppedEx.Get(ctx, target.Hash())
				} else {
					got3, gerr3 = stoppedEx.GetByHeight(ctx, target.Height())
				}
			})
			switch {
			case t3.Panic != nil:
				s.Violate("panic", map[string]string{"op": op, "after": "stop"}, "%s on a stopped Exchange panicked: %v\n%s", op, t3.Panic, t3.Stack)
			case !fin3:
				s.Violate("hang", map[string]string{"op": op, "after": "stop"}, "%s on a stopped Exchange did not return [%v]", op, desc)
			case gerr3 == nil && got3 == nil:
				s.Violate("zero-header-nil-error", map[string]string{"op": op, "after": "stop"}, "%s on a stopped Exchange returned a zero header and a nil error [%v]", op, desc)
			}
			s.Probe("request-after-stop")
		}
		return RunInfo{Nontrivial: true, StateKey: fmt.Sprint(desc, byHash), Evals: 1}
	}
	info := RunInfo{Nontrivial: true, StateKey: fmt.Sprint(desc, byHash), Evals: 1,
		Sample: map[string]any{"op": op, "peers": desc, "result": fmt.Sprint(got), "err": fmt.Sprint(gerr)}}
	at := map[string]string{"op": op}
	if t.Panic != nil {
		s.Violate("panic", at, "%s panicked: %v\n%s", op, t.Panic, t.Stack)
		return info
	}
	if !fin {
		s.Violate("hang", at, "%s did not return within its deadline [%v]", op, desc)
		return info
	}
	judge := func(got *H, gerr error) {
		nValid, nValidRight, nValidWrong := 0, 0, 0
		for _, sb := range sentBy {
			if sb.valid {
				nValid++
				if simhdr.Equal(sb.h, target) {
					if !sb.late {
						nValidRight++
					}
				} else {
					nValidWrong++
				}
			}
		}
		if gerr == nil {
			if got == nil {
				s.Violate("zero-header-nil-error", at, "%s returned a zero header and a nil error [%v]", op, desc)
				return
			}
			ok := false
			for _, sb := range sentBy {
				if sb.valid && simhdr.Equal(sb.h, got) {
					ok = true
				}
			}
			if !ok {
				s.Violate("unvalidated-header-returned", at, "%s returned %v which no trusted peer sent as a valid first response [%v]", op, got, desc)
				return
			}
			if byHash && string(got.Hash()) != string(target.Hash()) {
				s.Violate("hash-mismatch", at, "Get(%X) returned a header with hash %X [%v]", target.Hash()[:4], got.Hash()[:4], desc)
				return
			}
			if err := got.Validate(); err != nil || got.ChainID() != "sim-chain" {
				s.Violate("unvalidated-header-returned", at, "%s returned %v: Validate=%v chain=%q", op, got, err, got.ChainID())
			}
			s.Probe("returned-header")
			return
		}
		// error: must not happen when a trusted peer answered validly (and nobody lied with a valid other header)
		if nValidRight > 0 && nValidWrong == 0 {
			s.Violate("valid-answer-ignored", at, "%s failed with %v although %d trusted peers answered validly [%v]", op, gerr, nValidRight, desc)
			return
		}
		if got != nil {
			s.Violate("header-with-error", at, "%s returned both %v and error %v", op, got, gerr)
		}
		_ = errors.Is
		_ = header.ErrNotFound
		s.Probe("returned-error")
	}
	judge(got, gerr)
	if second == "same" && len(s.Violations) == 0 {
		judge(got2, gerr2)
	}
	return info
}
