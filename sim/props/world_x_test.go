package props

import (
	"context"
	"crypto/ed25519"
	"encoding/binary"
	"fmt"
	"io"
	"sync"
	"time"

	"github.com/ipfs/go-datastore"
	dssync "github.com/ipfs/go-datastore/sync"
	"github.com/libp2p/go-libp2p/core/crypto"
	"github.com/libp2p/go-libp2p/core/host"
	"github.com/libp2p/go-libp2p/core/network"
	"github.com/libp2p/go-libp2p/core/peer"
	"github.com/libp2p/go-libp2p/core/protocol"
	"github.com/libp2p/go-libp2p/p2p/net/conngater"
	mocknet "github.com/libp2p/go-libp2p/p2p/net/mock"
	ma "github.com/multiformats/go-multiaddr"

	"github.com/celestiaorg/go-libp2p-messenger/serde"

	"github.com/celestiaorg/go-header/p2p"
	p2p_pb "github.com/celestiaorg/go-header/p2p/pb"

	"verifsim/core"
	"verifsim/simhdr"
)

const xNetworkID = "sim"

var xProto = protocol.ID("/" + xNetworkID + "/header-ex/v0.0.3")

// detReader is a deterministic byte stream for key generation.
type detReader struct{ x uint64 }

func (r *detReader) Read(p []byte) (int, error) {
	for i := range p {
		r.x += 0x9e3779b97f4a7c15
		z := r.x
		z = (z ^ (z >> 30)) * 0xbf58476d1ce4e5b9
		z = (z ^ (z >> 27)) * 0x94d049bb133111eb
		p[i] = byte(z ^ (z >> 31))
	}
	return len(p), nil
}

// XW is world X: a real p2p.Exchange client on a libp2p mocknet whose other
// hosts are scripted peers (or real ExchangeServers, see xserver).
type XW struct {
	// SenderPause > 0 makes rawRequest send its request in two pieces, that far apart.
	SenderPause time.Duration
	// ReaderPause > 0 makes rawRequest wait that long before reading each further frame.
	ReaderPause time.Duration
	S     *core.Sim
	Net   mocknet.Mocknet
	Hosts []host.Host // [0] = client
	Ch    *simhdr.Chain
	Ex    *p2p.Exchange[*H]
	Gater *conngater.BasicConnectionGater
	Peers []*ScriptPeer
	hang  chan struct{} // closed at teardown: releases hanging peers
	servers []*XServer
	// Metrics: client and servers are built with their metrics on (configuration knob)
	Metrics bool
}

type frame struct {
	raw    []byte // written as is when non-nil
	body   []byte
	status p2p_pb.StatusCode
}

// Reply is what a scripted peer does with one request.
type Reply struct {
	Kind    string
	Frames  []frame
	Hang    bool          // never answer (until teardown)
	Reset   bool          // reset the stream (after the frames)
	NoClose bool          // leave the stream open after the frames
	Service time.Duration // virtual service time before answering
}

type ScriptPeer struct {
	W     *XW
	Idx   int
	Host  host.Host
	mu    sync.Mutex
	nreq  int
	Reqs  []*p2p_pb.HeaderRequest
	Kinds []string
	// Script decides the reply for the n-th request (1-based).
	Script func(n int, req *p2p_pb.HeaderRequest) Reply
}

func newXW(s *core.Sim, npeers int) (*XW, error) {
	w := &XW{S: s, hang: make(chan struct{})}
	w.Metrics = s.Tape.Coin("p2p-metrics", 1, 3)
	w.Net = mocknet.New()
	seed := uint64(s.Tape.Draw("key-seed", 1<<30))
	for i := 0; i <= npeers; i++ {
		rd := &detReader{x: seed*1000003 + uint64(i)*7919}
		pub, priv, err := ed25519.GenerateKey(rd)
		_ = pub
		if err != nil {
			return nil, err
		}
		sk, err := crypto.UnmarshalEd25519PrivateKey(priv)
		if err != nil {
			return nil, err
		}
		addr, _ := ma.NewMultiaddr(fmt.Sprintf("/ip4/10.0.%d.%d/tcp/4242", i/250, 1+i%250))
		h, err := w.Net.AddPeer(sk, addr)
		if err != nil {
			return nil, err
		}
		w.Hosts = append(w.Hosts, h)
	}
	if err := w.Net.LinkAll(); err != nil {
		return nil, err
	}
	p2p.SimHook.Order = func(ids []string) []int { return nil } // sorted by peer ID
	return w, nil
}

func (w *XW) PeerIDs(idx ...int) []peer.ID {
	var out []peer.ID
	for _, i := range idx {
		out = append(out, w.Hosts[i].ID())
	}
	return out
}

// AddScriptPeer installs a scripted handler on host i (1-based).
func (w *XW) AddScriptPeer(i int, script func(n int, req *p2p_pb.HeaderRequest) Reply) *ScriptPeer {
	p := &ScriptPeer{W: w, Idx: i, Host: w.Hosts[i], Script: script}
	w.Peers = append(w.Peers, p)
	p.Host.SetStreamHandler(xProto, p.handle)
	return p
}

func (p *ScriptPeer) handle(stream network.Stream) {
	req := new(p2p_pb.HeaderRequest)
	if _, err := serde.Read(stream, req); err != nil {
		_ = stream.Reset()
		return
	}
	p.mu.Lock()
	p.nreq++
	n := p.nreq
	p.Reqs = append(p.Reqs, req)
	p.mu.Unlock()
	rep := p.Script(n, req)
	p.mu.Lock()
	p.Kinds = append(p.Kinds, rep.Kind)
	p.mu.Unlock()
	p.W.S.Log.Addf("peer%d req#%d origin=%d hash=%x amount=%d -> %s", p.Idx, n, req.GetOrigin(), req.GetHash(), req.Amount, rep.Kind)
	svc := rep.Service
	if svc <= 0 {
		svc = time.Millisecond
	}
	// every reply is released by the scheduler and costs virtual time
	p.W.S.YieldAfter(fmt.Sprintf("peer%d:reply#%d", p.Idx, n), svc)
	if rep.Hang {
		p.W.S.Fault("peer-hang")
		<-p.W.hang
		_ = stream.Reset()
		return
	}
	for _, f := range rep.Frames {
		var err error
		if f.raw != nil {
			_, err = stream.Write(f.raw)
		} else {
			_, err = serde.Write(stream, &p2p_pb.HeaderResponse{Body: f.body, StatusCode: f.status})
		}
		if err != nil {
			_ = stream.Reset()
			return
		}
	}
	switch {
	case rep.Reset:
		_ = stream.Reset()
	case rep.NoClose:
		<-p.W.hang
		_ = stream.Reset()
	default:
		_ = stream.Close()
	}
}

func hdrFrame(h *H) frame {
	b, _ := h.MarshalBinary()
	return frame{body: b, status: p2p_pb.StatusCode_OK}
}

func okFrames(hs ...*H) []frame {
	out := make([]frame, len(hs))
	for i, h := range hs {
		out[i] = hdrFrame(h)
	}
	return out
}

func notFoundFrame() frame { return frame{status: p2p_pb.StatusCode_NOT_FOUND} }

// StartClient creates and starts the Exchange on host 0, connects it to the
// given peers (all become tracked; `trusted` are the trusted ones).
func (w *XW) StartClient(trusted []peer.ID, connect []int, opts ...p2p.Option[p2p.ClientParameters]) error {
	var err error
	_, fin := w.S.Do("start-client", time.Minute, func() {
		w.Gater, err = conngater.NewBasicConnectionGater(dssync.MutexWrap(datastore.NewMapDatastore()))
		if err != nil {
			return
		}
		all := append([]p2p.Option[p2p.ClientParameters]{p2p.WithNetworkID[p2p.ClientParameters](xNetworkID), p2p.WithChainID("sim-chain")}, opts...)
		if w.Metrics {
			all = append(all, p2p.WithMetrics[p2p.ClientParameters]())
		}
		w.Ex, err = p2p.NewExchange[*H](w.Hosts[0], trusted, w.Gater, all...)
		if err != nil {
			return
		}
		if err = w.Ex.Start(context.Background()); err != nil {
			return
		}
		for _, i := range connect {
			if _, cerr := w.Net.ConnectPeers(w.Hosts[0].ID(), w.Hosts[i].ID()); cerr != nil {
				err = cerr
				return
			}
		}
	})
	if !fin {
		return fmt.Errorf("client start did not finish")
	}
	// let the peer tracker see the connections
	w.S.Quiesce(500 * time.Millisecond)
	w.S.Quiesce(500 * time.Millisecond)
	return err
}

func (w *XW) teardown() {
	s := w.S
	s.Log.Freeze()
	close(w.hang)
	s.Drain()
	if w.Ex != nil {
		c, cancel := context.WithTimeout(context.Background(), time.Minute)
		_ = w.Ex.Stop(c)
		cancel()
	}
	for _, xs := range w.servers {
		if xs.Srv != nil {
			_ = xs.Srv.Stop(context.Background())
		}
		if xs.Rec != nil {
			c, cancel := context.WithTimeout(context.Background(), time.Minute)
			_ = xs.Rec.Store.Stop(c)
			cancel()
		}
	}
	_ = w.Net.Close()
	for _, h := range w.Hosts {
		_ = h.Close()
	}
	p2p.SimHook.Order = nil
}

// helpers for raw garbage
func garbage(s *core.Sim, n int) []byte {
	b := make([]byte, n)
	x := uint64(s.Tape.Draw("garbage-seed", 1<<30))
	for i := range b {
		x = x*6364136223846793005 + 1442695040888963407
		b[i] = byte(x >> 33)
	}
	return b
}

func truncatedFrame(h *H) []byte {
	b, _ := h.MarshalBinary()
	msg := &p2p_pb.HeaderResponse{Body: b, StatusCode: p2p_pb.StatusCode_OK}
	buf := make([]byte, msg.Size()+binary.MaxVarintLen64)
	n, _ := serde.Marshal(msg, buf)
	return buf[:n/2]
}

var _ = io.EOF
