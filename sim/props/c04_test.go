package props

import (
	"fmt"
	"time"

	"verifsim/core"
)

// C04 - Store is a gap-free chain Tail..Head with consistent lookups.
// Sequential histories (one operation at a time, quiescence in between) over
// the real Store on SimDisk, compared with StoreModel after every Sync.
func init() {
	register(&Scenario{ID: "C04", World: "S", Run: runC04})
}

// genAppend picks a contiguous run of the chain placed somewhere relative to
// the model: below the tail (with or without a gap), inside, adjacent to the
// head, above the head leaving a gap, or an exact repeat.
func genAppend(s *core.Sim, w *SW, m *StoreModel) (from, to uint64, kind string) {
	ln := uint64(s.Tape.Range("run-len", 1, 6))
	first := w.Ch.First
	if m.Empty() {
		from = first + uint64(s.Tape.Draw("start-off", 12))
		return from, from + ln - 1, "initial"
	}
	switch core.Pick(s.Tape, "place", []string{"head+1", "gap-above", "inside", "below-adj", "below-gap", "repeat", "island-fill"}) {
	case "head+1":
		from, kind = m.Head+1, "head+1"
	case "gap-above":
		from, kind = m.Head+2+uint64(s.Tape.Draw("gap", 4)), "gap-above"
	case "inside":
		from, kind = m.Tail+uint64(s.Tape.Draw("off", int(m.Head-m.Tail+1))), "inside"
	case "below-adj":
		if m.Tail <= first {
			from, kind = m.Head+1, "head+1"
			break
		}
		if m.Tail-first < ln {
			ln = m.Tail - first
		}
		from, kind = m.Tail-ln, "below-adj"
	case "below-gap":
		if m.Tail < first+3 {
			from, kind = m.Head+1, "head+1"
			break
		}
		gap := uint64(1 + s.Tape.Draw("gap", 2))
		if m.Tail-first < ln+gap {
			ln = 1
			gap = 1
		}
		from, kind = m.Tail-gap-ln, "below-gap"
	case "repeat":
		from, kind = m.Tail, "repeat"
		if m.Head-m.Tail+1 < ln {
			ln = m.Head - m.Tail + 1
		}
	case "island-fill":
		// the lowest missing height above head, if any island exists
		hs := m.Heights()
		if hs[len(hs)-1] > m.Head {
			from, kind = m.Head+1, "gap-fill"
			for from+ln-1 > hs[len(hs)-1] {
				ln--
			}
		} else {
			from, kind = m.Head+1, "head+1"
		}
	}
	if from < first {
		from = first
	}
	return from, from + ln - 1, kind
}

// genDelete picks a range: mostly acceptable ones (tail side or head side),
// sometimes invalid ones from the boundary grid.
func genDelete(s *core.Sim, m *StoreModel, allowWipe bool) (from, to uint64) {
	if m.Empty() {
		return 1, 2
	}
	n := m.Head - m.Tail + 1
	switch core.Pick(s.Tape, "del-kind", []string{"tail", "head", "invalid", "wipe"}) {
	case "tail":
		if n < 2 {
			return m.Tail, m.Tail // invalid: from==to
		}
		return m.Tail, m.Tail + 1 + uint64(s.Tape.Draw("del-n", int(n-1)))
	case "head":
		if n < 2 {
			return m.Head + 1, m.Head + 2
		}
		return m.Head - uint64(s.Tape.Draw("del-n", int(n-1))), m.Head + 1
	case "wipe":
		if allowWipe {
			return m.Tail, m.Head + 1
		}
		fallthrough
	default:
		grid := []uint64{0, m.Tail - 1, m.Tail, m.Tail + 1, (m.Tail + m.Head) / 2, m.Head - 1, m.Head, m.Head + 1, m.Head + 2, ^uint64(0)}
		return core.Pick(s.Tape, "del-from", grid), core.Pick(s.Tape, "del-to", grid)
	}
}

func runC04(s *core.Sim, tier string) RunInfo {
	w := newSW(s, false)
	// second configuration: disk latency stalls (no errors; model equality stays exact)
	stalls := s.Tape.Coin("stalls", 1, 3)
	if stalls {
		// stall decisions come from the disk's own stream (seeded from the tape):
		// they are drawn inside go-header's goroutines and must not interleave
		// with the draws of the root goroutine.
		rng := core.NewTape(uint64(s.Tape.Draw("stall-seed", 1<<30)))
		w.Disk.Latency = func(op string) time.Duration {
			if rng.Coin("stall", 1, 8) {
				s.Fault("disk-latency-stall")
				return time.Duration(1+rng.Draw("stall-ms", 5000)) * time.Millisecond
			}
			return 0
		}
	}
	w.Disk.Park = s.Tape.Coin("park", 1, 2)
	w.lowerParallelThreshold()
	s.SchedDen = core.Pick(s.Tape, "sched-den", []int{1, 2, 4, 16})
	nops := 8 + s.Tape.Draw("nops", 28)
	if tier == "thorough" {
		nops = 8 + s.Tape.Draw("nops", 60)
	}
	m := w.M
	var hist []string
	info := func() RunInfo {
		return RunInfo{Nontrivial: len(hist) >= 3, StateKey: w.cfg() + "|" + m.String() + "|" + fmt.Sprint(len(hist)), Sample: map[string]any{"config": w.cfg(), "history": hist, "final_model": m.String()}, Evals: 1}
	}
	if err := w.Open(); err != nil {
		s.Violate("start-error", nil, "Start on empty disk: %v", err)
		return info()
	}
	defer func() {
		if w.St != nil {
			w.S.Go("final-stop", func() { _ = w.St.Stop(ctxBG()) })
			w.S.Quiesce(0)
		}
	}()
	for i := 0; i < nops && !s.Failed(); i++ {
		switch core.Pick(s.Tape, "op", []string{"append", "append", "append", "check", "delete", "restart", "sync", "peek", "peek"}) {
		case "append":
			from, to, kind := genAppend(s, w, m)
			run := w.Ch.Range(from, to)
			if len(run) > 1 && s.Tape.Coin("unordered-batch", 1, 5) {
				// "Append in any order": the headers of one call need not be ascending
				for j := len(run) - 1; j > 0; j-- {
					k := s.Tape.Draw("shuffle", j+1)
					run[j], run[k] = run[k], run[j]
				}
				kind += ",unordered"
				s.Probe("append-unordered-batch")
			}
			hist = append(hist, fmt.Sprintf("append %d..%d (%s)", from, to, kind))
			if err := w.Append(run...); err != nil {
				s.Violate("append-error", nil, "Append(%d..%d): %v", from, to, err)
				break
			}
			m.Append(from, to)
			s.Probe("append-" + kind)
		case "sync":
			hist = append(hist, "sync")
			if err := w.Sync(); err != nil {
				s.Violate("sync-error", nil, "Sync: %v", err)
			}
		case "peek":
			if stalls {
				continue // a stalled flush is still in flight: not idle, nothing to peek at
			}
			hist = append(hist, "peek")
			w.peekStore(m, fmt.Sprintf("after op %d", i))
		case "check":
			hist = append(hist, "check")
			w.checkStore(m, fmt.Sprintf("after op %d", i))
		case "delete":
			if m.Empty() {
				continue
			}
			from, to := genDelete(s, m, true)
			ok := m.DeleteOK(from, to)
			hist = append(hist, fmt.Sprintf("delete [%d,%d) accept=%v", from, to, ok))
			err := w.Delete(from, to)
			switch {
			case ok && err != nil:
				s.Violate("delete-rejected", nil, "DeleteRange(%d,%d) on %s: %v", from, to, m.String(), err)
			case !ok && err == nil:
				s.Violate("delete-accepted", nil, "DeleteRange(%d,%d) on %s returned nil", from, to, m.String())
			case ok:
				m.Delete(from, to)
				s.Probe("delete-ok")
			default:
				s.Probe("delete-invalid")
			}
			if !s.Failed() {
				w.checkStore(m, fmt.Sprintf("after delete [%d,%d)", from, to))
			}
		case "restart":
			hist = append(hist, "restart")
			s.Probe("restart")
			if err := w.Restart(); err != nil { // a new Store over the datastore, or the same object again
				s.Violate("start-error", nil, "Start after Stop: %v (model %s)", err, m.String())
				break
			}
			w.checkStore(m, "after restart")
		}
	}
	if !s.Failed() {
		w.checkStore(m, "final")
	}
	return info()
}
