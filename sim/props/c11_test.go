package props

import (
	"context"
	"crypto/sha256"
	"errors"
	"fmt"
	"sync"
	"time"

	pubsub "github.com/libp2p/go-libp2p-pubsub"
	pb "github.com/libp2p/go-libp2p-pubsub/pb"
	"github.com/libp2p/go-libp2p/core/peer"
	"github.com/libp2p/go-libp2p/core/protocol"

	header "github.com/celestiaorg/go-header"
	"github.com/celestiaorg/go-header/p2p"

	"verifsim/core"
	"verifsim/simhdr"
)

// C11 - Subscriber delivers/relays a gossip message only if it decodes and verifies.
func init() {
	register(&Scenario{ID: "C11", World: "G", Run: runC11})
}

type gTracer struct {
	mu       sync.Mutex
	deliver  map[string]int
	reject   map[string]string
	validate map[string]int
}

func msgKey(data []byte) string { h := sha256.Sum256(data); return string(h[:]) }

func (t *gTracer) OnNewOutboundStream(peer.ID, protocol.ID) {}
func (t *gTracer) OnClosedOutboundStream(peer.ID)            {}
func (t *gTracer) Join(string)                               {}
func (t *gTracer) Leave(string)                              {}
func (t *gTracer) Graft(peer.ID, string)                     {}
func (t *gTracer) Prune(peer.ID, string)                     {}
func (t *gTracer) ValidateMessage(m *pubsub.Message) {
	t.mu.Lock()
	t.validate[msgKey(m.Data)]++
	t.mu.Unlock()
}
func (t *gTracer) DeliverMessage(m *pubsub.Message) {
	t.mu.Lock()
	t.deliver[msgKey(m.Data)]++
	t.mu.Unlock()
}
func (t *gTracer) RejectMessage(m *pubsub.Message, reason string) {
	t.mu.Lock()
	t.reject[msgKey(m.Data)] = reason
	t.mu.Unlock()
}
func (t *gTracer) DuplicateMessage(*pubsub.Message)     {}
func (t *gTracer) ThrottlePeer(peer.ID)                 {}
func (t *gTracer) RecvRPC(*pubsub.RPC)                  {}
func (t *gTracer) SendRPC(*pubsub.RPC, peer.ID)         {}
func (t *gTracer) DropRPC(*pubsub.RPC, peer.ID)         {}
func (t *gTracer) UndeliverableMessage(*pubsub.Message) {}

func gMsgID(m *pb.Message) string { h := sha256.Sum256(m.Data); return string(h[:]) }

func runC11(s *core.Sim, tier string) RunInfo {
	simhdr.Reset()
	w, err := newXW(s, 2) // hosts: 0 = A (raw publisher), 1 = B, 2 = C
	if err != nil {
		s.Aborted = "mocknet: " + err.Error()
		return RunInfo{}
	}
	defer w.teardown()
	w.Ch = simhdr.NewChain("sim-chain", 1, time.Now().Add(-10*time.Hour), 3*time.Second)
	ctx, cancelAll := context.WithCancel(context.Background())
	defer cancelAll()
	tr := &gTracer{deliver: map[string]int{}, reject: map[string]string{}, validate: map[string]int{}}
	topicID := p2p.PubsubTopicID(xNetworkID)
	var psA, psB, psC *pubsub.PubSub
	var subB, subC *p2p.Subscriber[*H]
	var topicA *pubsub.Topic
	var sB, sC header.Subscription[*H]
	simhdr.Cfg.DecoderPanics = true
	lateVerifier := s.Tape.Coin("late-verifier", 1, 6)
	restartB := s.Tape.Coin("subscriber-restarted", 1, 4)
	if restartB {
		s.Probe("same-subscriber-restarted")
	}
	// configuration knob: the Subscriber under test with or without its metrics
	withMetrics := s.Tape.Coin("subscriber-metrics", 1, 2)
	if withMetrics {
		s.Probe("subscriber-with-metrics")
	}
	// per-payload verifier script at B
	var vmu sync.Mutex
	script := map[string]string{}
	invalidCount := map[peer.ID]float64{}
	var setupErr error
	_, fin := s.Do("setup", time.Minute, func() {
		mk := func(i int, opts ...pubsub.Option) (*pubsub.PubSub, error) {
			all := append([]pubsub.Option{pubsub.WithMessageSignaturePolicy(pubsub.StrictNoSign), pubsub.WithMessageIdFn(gMsgID)}, opts...)
			return pubsub.NewGossipSub(ctx, w.Hosts[i], all...)
		}
		if psA, setupErr = mk(0); setupErr != nil {
			return
		}
		scoreOpt := pubsub.WithPeerScore(&pubsub.PeerScoreParams{
			Topics:        map[string]*pubsub.TopicScoreParams{topicID: &p2p.GossibSubScore},
			AppSpecificScore: func(peer.ID) float64 { return 0 },
			DecayInterval: time.Second, DecayToZero: 0.01,
		}, &pubsub.PeerScoreThresholds{GossipThreshold: -1e6, PublishThreshold: -1e7, GraylistThreshold: -1e8})
		inspect := pubsub.WithPeerScoreInspect(func(m map[peer.ID]*pubsub.PeerScoreSnapshot) {
			vmu.Lock()
			for p, sn := range m {
				if ts := sn.Topics[topicID]; ts != nil {
					invalidCount[p] = ts.InvalidMessageDeliveries
				}
			}
			vmu.Unlock()
		}, 200*time.Millisecond)
		if psB, setupErr = mk(1, pubsub.WithRawTracer(tr), scoreOpt, inspect); setupErr != nil {
			return
		}
		if psC, setupErr = mk(2); setupErr != nil {
			return
		}
		optsB := []p2p.SubscriberOption{p2p.WithSubscriberNetworkID(xNetworkID)}
		if withMetrics {
			optsB = append(optsB, p2p.WithSubscriberMetrics())
		}
		if subB, setupErr = p2p.NewSubscriber[*H](psB, gMsgID, optsB...); setupErr != nil {
			return
		}
		if subC, setupErr = p2p.NewSubscriber[*H](psC, gMsgID, p2p.WithSubscriberNetworkID(xNetworkID)); setupErr != nil {
			return
		}
		if setupErr = subB.Start(ctx); setupErr != nil {
			return
		}
		if restartB {
			// the Subscriber under test has had a first life: started, stopped (nobody subscribed),
			// started again - the same object
			if setupErr = subB.Stop(ctx); setupErr != nil {
				return
			}
			if setupErr = subB.Start(ctx); setupErr != nil {
				return
			}
		}
		if setupErr = subC.Start(ctx); setupErr != nil {
			return
		}
		_ = subC.SetVerifier(func(context.Context, *H) error { return nil })
		if sB, setupErr = subB.Subscribe(); setupErr != nil {
			return
		}
		if sC, setupErr = subC.Subscribe(); setupErr != nil {
			return
		}
		if topicA, setupErr = psA.Join(topicID); setupErr != nil {
			return
		}
		// line A - B - C
		if _, setupErr = w.Net.ConnectPeers(w.Hosts[0].ID(), w.Hosts[1].ID()); setupErr != nil {
			return
		}
		_, setupErr = w.Net.ConnectPeers(w.Hosts[1].ID(), w.Hosts[2].ID())
	})
	if !fin || setupErr != nil {
		s.Aborted = fmt.Sprintf("gossip setup: finished=%v err=%v", fin, setupErr)
		return RunInfo{}
	}
	verifier := func(_ context.Context, h *H) error {
		_ = h.Hash() // what a verifier does first: it names the header in its log
		b, _ := h.MarshalBinary()
		vmu.Lock()
		k := script[msgKey(b)]
		vmu.Unlock()
		switch k {
		case "soft":
			return &header.VerifyError{Reason: errors.New("scripted"), SoftFailure: true}
		case "hard":
			return &header.VerifyError{Reason: errors.New("scripted")}
		case "wrapped-soft":
			return fmt.Errorf("ctx: %w", &header.VerifyError{Reason: errors.New("scripted"), SoftFailure: true})
		case "wrapped-hard":
			return fmt.Errorf("ctx: %w", &header.VerifyError{Reason: errors.New("scripted")})
		case "plain":
			return errors.New("scripted plain error")
		case "panic":
			panic("scripted verifier panic")
		case "slow":
			time.Sleep(20 * time.Millisecond)
		}
		return nil
	}
	verifierSet := !lateVerifier
	if !lateVerifier {
		_ = subB.SetVerifier(verifier)
	}
	// let the mesh form (heartbeats run on the virtual clock)
	s.Quiesce(3 * time.Second)
	// collectors for the subscriptions
	var cmu sync.Mutex
	gotB, gotC := map[string]*H{}, map[string]*H{}
	var collectorPanic any
	collect := func(sub header.Subscription[*H], into map[string]*H) {
		defer func() {
			if r := recover(); r != nil {
				cmu.Lock()
				collectorPanic = r
				cmu.Unlock()
			}
		}()
		for {
			h, err := sub.NextHeader(ctx)
			if err != nil {
				return
			}
			b, _ := h.MarshalBinary()
			cmu.Lock()
			into[msgKey(b)] = h
			cmu.Unlock()
		}
	}
	go collect(sB, gotB)
	go collect(sC, gotC)
	type sentMsg struct {
		desc, payload, verdict string
		data                   []byte
		h                      *H
	}
	var sent []sentMsg
	nmsg := 3 + s.Tape.Draw("nmsg", 5)
	for i := 0; i < nmsg && !s.Failed(); i++ {
		h := w.Ch.At(uint64(5 + i))
		data, _ := h.MarshalBinary()
		payload := core.Pick(s.Tape, "payload", []string{"valid", "valid", "valid", "bad-validate", "truncated", "extended", "empty", "garbage", "decoder-panic", "flipped"})
		verdict := core.Pick(s.Tape, "verdict", []string{"nil", "nil", "soft", "hard", "wrapped-soft", "wrapped-hard", "plain", "panic", "slow"})
		var hh *H = h
		switch payload {
		case "bad-validate":
			c := simhdr.Clone(h)
			c.BadValidate = true
			hh = c.Sign()
			data, _ = hh.MarshalBinary()
		case "truncated":
			data, hh = data[:len(data)/2], nil
		case "extended":
			data, hh = append(append([]byte{}, data...), 1, 2, 3), nil
		case "empty":
			data, hh = []byte{}, nil
		case "garbage":
			data, hh = garbage(s, 10+s.Tape.Draw("glen", 100)), nil
			if data[0] == simhdr.PanicMagic {
				data[0] = 0
			}
		case "decoder-panic":
			data, hh = append([]byte{simhdr.PanicMagic}, garbage(s, 8)...), nil
		case "flipped":
			// a single-field corruption that still decodes: another salt (MAC no longer matches, Validate still fine)
			c := simhdr.Clone(h)
			c.Salt ^= 0x5a
			hh = c
			data, _ = hh.MarshalBinary()
		}
		if len(data) == 0 {
			continue // gossipsub does not carry empty payloads distinctly enough to attribute
		}
		key := msgKey(data)
		vmu.Lock()
		script[key] = verdict
		before := invalidCount[w.Hosts[0].ID()]
		vmu.Unlock()
		sent = append(sent, sentMsg{fmt.Sprintf("%s/%s", payload, verdict), payload, verdict, data, hh})
		// some headers are broadcast by B itself (the local path pre-sets ValidatorData and
		// skips decoding): the same verdicts apply, and a refused one makes Broadcast fail
		local := hh != nil && verifierSet && s.Tape.Coin("local-broadcast", 1, 4)
		var perr error
		if local {
			sent[len(sent)-1].desc += "/local"
			s.Do("broadcast", time.Minute, func() { perr = subB.Broadcast(ctx, hh) })
			s.Probe("local-broadcast")
		} else {
			s.Do("publish", time.Minute, func() { perr = topicA.Publish(ctx, data) })
			if perr != nil {
				s.Aborted = "publish: " + perr.Error()
				break
			}
		}
		// one message at a time; heartbeats and validation run in virtual time
		s.Quiesce(1500 * time.Millisecond)
		if lateVerifier && !verifierSet {
			verifierSet = true
			// the first message met a Subscriber without verifier: it must be held (neither
			// delivered nor relayed) until a verifier is set, and then judged as usual
			s.Quiesce(5 * time.Second)
			tr.mu.Lock()
			d0 := tr.deliver[key]
			tr.mu.Unlock()
			cmu.Lock()
			b0, c0 := gotB[key], gotC[key]
			cmu.Unlock()
			if d0 > 0 || b0 != nil || c0 != nil {
				s.Violate("delivered-without-verifier", nil, "message %d (%s) was delivered/relayed before any verifier was set", i, payload)
				break
			}
			s.Probe("held-until-verifier-set")
			_ = subB.SetVerifier(verifier)
			s.Quiesce(1500 * time.Millisecond)
		}
		decodes := hh != nil
		validates := decodes && hh.Validate() == nil
		want := "reject"
		switch {
		case !validates:
			want = "reject"
		case verdict == "nil" || verdict == "slow":
			want = "accept"
		case verdict == "soft" || verdict == "wrapped-soft":
			want = "ignore"
		}
		tr.mu.Lock()
		delivered, reason, validated := tr.deliver[key], tr.reject[key], tr.validate[key]
		tr.mu.Unlock()
		cmu.Lock()
		atB, atC := gotB[key], gotC[key]
		cmu.Unlock()
		vmu.Lock()
		after := invalidCount[w.Hosts[0].ID()]
		vmu.Unlock()
		at := map[string]string{"payload": payload, "verdict": verdict, "want": want}
		desc := fmt.Sprintf("message %d (%s payload, verifier says %s)", i, payload, verdict)
		if local {
			at["local"] = "true"
			desc += " broadcast by B itself"
			if (want == "accept") != (perr == nil) {
				s.Violate("local-broadcast-verdict", at, "%s: Broadcast returned %v", desc, perr)
				continue
			}
			if want != "accept" {
				if delivered > 0 || atB != nil || atC != nil {
					s.Violate("invalid-message-delivered", at, "%s: refused locally but deliver=%d B=%v C=%v", desc, delivered, atB, atC)
				}
				continue
			}
		}
		if validated == 0 {
			s.Probe("message-not-seen-by-B")
			continue
		}
		switch want {
		case "accept":
			if delivered == 0 || atB == nil || !simhdr.Equal(atB, hh) {
				s.Violate("valid-message-not-delivered", at, "%s: tracer deliver=%d reject=%q, B's subscription got %v", desc, delivered, reason, atB)
			} else if atC == nil || !simhdr.Equal(atC, hh) {
				s.Violate("valid-message-not-relayed", at, "%s: delivered at B but C (reachable only through B) got %v", desc, atC)
			}
			s.Probe("accepted")
		case "ignore":
			if delivered > 0 || atB != nil || atC != nil {
				s.Violate("invalid-message-delivered", at, "%s: must be ignored but deliver=%d B=%v C=%v", desc, delivered, atB, atC)
			} else if reason != pubsub.RejectValidationIgnored {
				s.Violate("wrong-verdict", at, "%s: must be ignored without penalty, tracer says %q", desc, reason)
			} else if after > before {
				s.Violate("sender-penalised-for-soft-failure", at, "%s: A's invalid-message counter went %v -> %v", desc, before, after)
			}
			s.Probe("ignored")
		default:
			if delivered > 0 || atB != nil || atC != nil {
				s.Violate("invalid-message-delivered", at, "%s: must be rejected but deliver=%d B=%v C=%v", desc, delivered, atB, atC)
			} else if reason != pubsub.RejectValidationFailed {
				s.Violate("wrong-verdict", at, "%s: must be rejected, tracer says %q", desc, reason)
			}
			s.Probe("rejected")
		}
	}
	// shutting down: the Subscriber is stopped while a consumer still waits in NextHeader (it is
	// the consumer's own goroutine), and the network keeps talking. Whatever arrives now - it is
	// no longer validated by anybody - must not reach the consumer as a header, nor crash it.
	if !s.Failed() && s.Tape.Coin("stop-with-open-subscription", 1, 3) {
		s.Do("subscriber-stop", time.Minute, func() { _ = subB.Stop(ctx) })
		late := garbage(s, 12)
		lateValid := s.Tape.Coin("late-is-header", 1, 2)
		if lateValid {
			// (a valid header the verifier accepts may still be delivered - validated - as long
			// as the Subscription is open; it is the unvalidated delivery that must not happen)
			late, _ = w.Ch.At(uint64(100 + s.Tape.Draw("late-h", 50))).MarshalBinary()
		}
		s.Do("publish-after-stop", time.Minute, func() { _ = topicA.Publish(ctx, late) })
		s.Quiesce(1500 * time.Millisecond)
		cmu.Lock()
		cp, atB := collectorPanic, gotB[msgKey(late)]
		cmu.Unlock()
		if cp != nil {
			s.Violate("consumer-crash-after-stop", nil, "a message arriving after Subscriber.Stop made NextHeader panic in the consumer's goroutine: %v", cp)
		} else if atB != nil && !lateValid {
			s.Violate("unvalidated-message-delivered", map[string]string{"after": "stop"}, "a message arriving after Subscriber.Stop reached the open Subscription as a header without validation: %v", atB)
		}
		s.Probe("message-after-stop-with-open-subscription")
	}
	var descs []string
	for _, m := range sent {
		descs = append(descs, m.desc)
	}
	cancelAll()
	return RunInfo{Nontrivial: len(sent) > 1, StateKey: fmt.Sprint(descs, lateVerifier), Evals: len(sent),
		Sample: map[string]any{"messages": descs, "verifier_set_late": lateVerifier}}
}
