package props

import (
	"context"
	"errors"
	"fmt"
	"time"

	header "github.com/celestiaorg/go-header"
	"github.com/celestiaorg/go-header/store"
	hsync "github.com/celestiaorg/go-header/sync"

	"verifsim/core"
	"verifsim/simhdr"
)

// C03 - Syncer only ever stores one contiguous chain of verified headers (safety).
// C07 - With an honest getter the Syncer reaches every verified target (liveness
//       once faults stop).
func init() {
	register(&Scenario{ID: "C03", World: "Y", Hooks: true, Run: func(s *core.Sim, tier string) RunInfo { return runSyncer(s, tier, false) }})
	register(&Scenario{ID: "C07", World: "Y", Hooks: true, Run: func(s *core.Sim, tier string) RunInfo { return runSyncer(s, tier, true) }})
}

type delivery struct {
	mustRefuse bool // at or below a height the syncer had already acknowledged when it was sent
	kind   string
	h      *H
	err    error
	done   bool
	honest bool
}

func runSyncer(s *core.Sim, tier string, liveness bool) RunInfo {
	simhdr.Reset()
	simhdr.Cfg.TrustRange = uint64(core.Pick(s.Tape, "trust-range", []int{1 << 40, 1 << 40, 1, 3, 16}))
	space := 3 * time.Second
	drift, ok := calibrateDrift(s, simhdr.NewChain("calib", 1, time.Now().Add(-time.Hour), time.Second), 5)
	if !ok {
		return RunInfo{Evals: 1}
	}
	age := uint64(20 + s.Tape.Draw("age", 120))
	w := newYW(s, 1, age, space)
	s.SchedDen = core.Pick(s.Tape, "sched-den", []int{1, 2, 4, 8})
	depth := uint64(2 + s.Tape.Draw("depth", 40))
	if depth >= age {
		depth = age - 1
	}
	tailH := age - depth
	var hist []string
	bad := map[string]string{} // hash -> kind of refused/forged headers
	var dels []*delivery
	info := func() RunInfo {
		return RunInfo{Nontrivial: len(dels) >= 2, StateKey: fmt.Sprint(hist), Evals: 1 + len(dels),
			Sample: map[string]any{"trust_range": simhdr.Cfg.TrustRange, "chain_age": age, "sync_from_height": tailH, "ops": hist, "getter_calls": len(w.G.CallsCopy())}}
	}
	defer w.teardown()
	// the Store under the Syncer: flavour, small caches, and (sometimes) every datastore
	// operation a park point with occasional latency, so that the store's own goroutine
	// interleaves with the sync loop and the gossip handler as well
	w.configureDisk()
	p := store.Parameters{WriteBatchSize: core.Pick(s.Tape, "batch", sizeKnob), StoreCacheSize: core.Pick(s.Tape, "cache", cacheKnob), IndexCacheSize: core.Pick(s.Tape, "icache", cacheKnob)}
	if err := w.OpenStore(p); err != nil {
		s.Aborted = "store start: " + err.Error()
		return info()
	}
	rec := time.Duration(1+s.Tape.Draw("recency-blocks", 4)) * space
	syOpts := []hsync.Option{hsync.WithBlockTime(space), hsync.WithTrustingPeriod(1000 * time.Hour), hsync.WithRecencyThreshold(rec),
		hsync.WithSyncFromHeight(tailH), hsync.WithPruningWindow(2000 * time.Hour)}
	if err := w.NewSyncer(syOpts...); err != nil {
		s.Aborted = "NewSyncer: " + err.Error()
		return info()
	}
	var startErr error
	st, fin := s.Do("syncer-start", 10*time.Minute, func() { startErr = w.StartSyncer(9 * time.Minute) })

	if st.Panic != nil {
		s.Violate("panic", map[string]string{"op": "Start"}, "Start panicked: %v\n%s", st.Panic, st.Stack)
		return info()
	}
	if !fin {
		s.Violate("hang", map[string]string{"op": "Start"}, "Syncer.Start did not return within 10 virtual minutes")
		return info()
	}
	if startErr != nil {
		s.Violate("start-error", nil, "Syncer.Start with an honest getter: %v", startErr)
		return info()
	}
	ctx := context.Background()
	var headsSeen []uint64
	accepted := uint64(0) // highest honest head the syncer acknowledged (verifier nil / Head() result)
	deliver := func(kind string, h *H, honest bool) *core.Task {
		d := &delivery{kind: kind, h: h, honest: honest}
		if h != nil && honest && accepted > 0 && h.Height() <= accepted {
			d.mustRefuse = true // the subjective head never moves back
		}
		dels = append(dels, d)
		if !honest && h != nil {
			bad[string(h.Hash())] = kind
		}
		hist = append(hist, fmt.Sprintf("gossip %s %v", kind, h))
		return s.Go(fmt.Sprintf("gossip-%s-%d", kind, len(dels)), func() {
			c, cancel := context.WithTimeout(ctx, 5*time.Minute)
			defer cancel()
			d.err = w.Sub.Deliver(c, h)
			d.done = true
			if h != nil && h.Time().After(time.Now().Add(drift)) && d.err == nil {
				// still more than the (calibrated) drift allowance ahead of now
				s.Violate("bad-gossip-accepted", map[string]string{"kind": "from-future"}, "the verifier accepted %v although it is dated %v ahead of now", h, time.Until(h.Time()))
			}
			if d.err == nil && honest && h.Height() > accepted {
				accepted = h.Height()
			}
		})
	}
	callHead := func() *core.Task {
		// one caller asking once, or again the moment it has its answer (no virtual time in
		// between: whatever the first request left behind is as fresh as it gets)
		times := 1 + s.Tape.Biased("head-again", 3, 3)
		hist = append(hist, fmt.Sprintf("Head() x%d", times))
		if times > 1 {
			s.Probe("head-asked-again-at-once")
		}
		return s.Go("head-call", func() {
			c, cancel := context.WithTimeout(ctx, 5*time.Minute)
			defer cancel()
			for k := 0; k < times; k++ {
				h, err := w.Sy.Head(c)
				if err != nil {
					continue
				}
				if k, isBad := bad[string(h.Hash())]; isBad {
					s.Violate("refused-header-became-head", map[string]string{"kind": k}, "Syncer.Head() returned the %s header %v", k, h)
				}
				if w.Ch.Is(h) && h.Height() > accepted {
					accepted = h.Height()
				}
				headsSeen = append(headsSeen, h.Height())
			}
		})
	}
	subjective := func() uint64 { // a height near where the syncer is
		if accepted > 0 {
			return accepted
		}
		return w.NetHead()
	}
	restarted := false
	nops := 6 + s.Tape.Draw("nops", 18)
	lastStoreHead := uint64(0)
	var pending []*core.Task
	settle := func(why string) bool {
		if stuck := s.Settle(30*time.Minute, pending...); len(stuck) > 0 && !s.Failed() {
			s.Violate("hang", map[string]string{"op": opName(stuck[0].Name)}, "[%s] task %s did not finish within 30 virtual minutes", why, stuck[0].Name)
			return false
		}
		pending = nil
		w.waitSyncIdle(30 * time.Minute)
		if s.Failed() {
			return false
		}
		// --- safety oracle
		w.checkStoreIsHonestChain(why, true)
		if liveness && w.Disk.Fault == nil && !s.Failed() {
			// "nothing partial is lost": whatever the getter has delivered for a range request
			// (a contiguous verified run on top of the header the request named) is stored by the
			// time the Syncer is idle, whether or not the request after it failed
			w.G.mu.Lock()
			served := w.G.MaxServed
			w.G.mu.Unlock()
			var sh *H
			t := s.Go("store-head", func() { _ = w.St.Sync(ctx); sh, _ = w.St.Head(ctx) })
			s.Settle(30*time.Minute, t)
			if sh != nil && sh.Height() < served && !restarted {
				s.Violate("served-headers-lost", nil, "[%s] the getter has delivered headers up to %d in answered range requests but the store head is %d at quiescence ops=%v", why, served, sh.Height(), hist)
				return false
			}
		}
		if s.Failed() {
			return false
		}
		// NOTE: an honest header that is re-delivered, or is stale by the time it is looked at,
		// is not required to be refused here: the Syncer prefers the top of its pending set over
		// a higher store head, so its subjective head can briefly step back and accept a
		// duplicate (observed on the unchanged tree; harmless, the store refuses the re-append).
		for _, d := range dels {
			if d.done && !d.honest && d.err == nil {
				s.Violate("bad-gossip-accepted", map[string]string{"kind": d.kind}, "[%s] the verifier returned nil for the %s header %v (trust range %d)", why, d.kind, d.h, simhdr.Cfg.TrustRange)
				return false
			}
		}
		state := w.Sy.State()
		if k, isBad := bad[string(state.ToHash)]; isBad {
			s.Violate("refused-header-became-target", map[string]string{"kind": k}, "[%s] State().ToHash is the %s header", why, k)
			return false
		}
		var sh uint64
		t := s.Go("store-head", func() {
			if h, err := w.St.Head(ctx); err == nil {
				sh = h.Height()
			}
		})
		s.Settle(30*time.Minute, t)
		if sh < lastStoreHead {
			s.Violate("store-head-went-back", nil, "[%s] store head %d -> %d", why, lastStoreHead, sh)
			return false
		}
		lastStoreHead = sh
		return true
	}
	faultsLeft := 0
	frng := s.Sub("getter-faults")
	w.G.RangeFault = func(n int, from, to uint64) (int, error) {
		if faultsLeft <= 0 {
			return 0, nil
		}
		faultsLeft--
		switch frng.Draw("range-fault", 3) {
		case 0:
			// whatever a getter may fail with while the Syncer itself keeps running: its own
			// request being torn down (cancelled stream / peer session), a timeout, nothing found
			switch frng.Draw("range-error-kind", 4) {
			case 1:
				s.Fault("getter-range-error-canceled")
				return 0, fmt.Errorf("getter: session closed: %w", context.Canceled)
			case 2:
				s.Fault("getter-range-error-deadline")
				return 0, fmt.Errorf("getter: request timed out: %w", context.DeadlineExceeded)
			case 3:
				s.Fault("getter-range-error-notfound")
				return 0, fmt.Errorf("getter: %w", header.ErrNotFound)
			}
			return 0, errors.New("getter: injected failure")
		case 1:
			return 1 + frng.Draw("prefix", 5), nil
		default:
			return 1, nil
		}
	}
	for i := 0; i < nops && !s.Failed(); i++ {
		ops := []string{"next", "next", "skip", "burst", "head", "clock", "getter-faults", "settle", "settle"}
		if !liveness {
			ops = append(ops, "forged", "forged", "wrong-chain", "future", "stale", "stale-fork", "duplicate", "forged-far", "head-forged")
		}
		switch core.Pick(s.Tape, "op", ops) {
		case "next":
			s.Sleep(space)
			pending = append(pending, deliver("honest-next", w.Ch.At(w.NetHead()), true))
		case "skip":
			k := 2 + s.Tape.Draw("skip", 30)
			s.Sleep(time.Duration(k) * space)
			hist = append(hist, fmt.Sprintf("clock +%d blocks", k))
			pending = append(pending, deliver("honest-skip", w.Ch.At(w.NetHead()), true))
		case "burst":
			n := 2 + s.Tape.Draw("burst", 4)
			s.Sleep(time.Duration(n) * space)
			top := w.NetHead()
			for j := n - 1; j >= 0; j-- {
				h := top - uint64(j)
				if s.Tape.Coin("burst-gap", 1, 4) {
					continue // leaves a gap in the pending set
				}
				pending = append(pending, deliver("honest-burst", w.Ch.At(h), true))
			}
		case "head":
			pending = append(pending, callHead())
		case "head-forged":
			// ordinary peers answer the next head request with a forged header; when that
			// soft-fails against the trusted head the getter contract passes it on together
			// with the soft error, and the Syncer has to find out by bifurcation
			off := uint64(1 + s.Tape.Draw("forged-head-off", 9))
			salt := uint64(i)
			softShape := s.Tape.Coin("forged-head-soft-shape", 1, 2)
			rng2 := s.Sub("forged-head")
			w.G.HeadFault = func(n int, trusted *H) (*H, error, bool) {
				w.G.HeadFault = nil
				if trusted == nil {
					return nil, nil, false
				}
				f := simhdr.ForgeSig(w.Ch.At(trusted.Height()+off), salt)
				if softShape {
					// a header whose own verification fails softly against anything, adjacent or
					// not: the search for a verifiable path bottoms out without anybody vouching
					f = simhdr.Clone(w.Ch.At(trusted.Height() + off))
					f.Salt = salt
					f.Shape = core.Pick(rng2, "soft-shape", []simhdr.Shape{simhdr.ShapeBareSoft, simhdr.ShapeWrappedSoft})
					f.Sign()
				}
				bad[string(f.Hash())] = "forged-head"
				s.Fault("forged-head-from-peers")
				return f, nil, true
			}
			s.Sleep(rec + time.Second) // make the subjective head stale so that Head() asks the network
			hist = append(hist, fmt.Sprintf("peers answer the next head request with a forged header (+%d)", off))
			pending = append(pending, callHead())
		case "clock":
			d := time.Duration(1+s.Tape.Draw("clock-s", 120)) * time.Second
			hist = append(hist, fmt.Sprintf("clock +%v", d))
			s.Sleep(d)
		case "getter-faults":
			faultsLeft = 1 + s.Tape.Draw("nfaults", 4)
			hist = append(hist, fmt.Sprintf("next %d range requests fail or come back short", faultsLeft))
		case "settle":
			if !settle(fmt.Sprintf("after op %d", i)) {
				return info()
			}
		case "forged":
			base := subjective()
			x := base + 1 + uint64(s.Tape.Draw("forged-off", 6))
			pending = append(pending, deliver("forged-sig", simhdr.ForgeSig(w.Ch.At(x), uint64(i)), false))
		case "forged-far":
			base := subjective()
			x := base + 10 + uint64(s.Tape.Draw("forged-far", 200))
			pending = append(pending, deliver("forged-sig-far", simhdr.ForgeSig(w.Ch.At(x), uint64(i)), false))
		case "wrong-chain":
			x := subjective() + 1 + uint64(s.Tape.Draw("off", 4))
			pending = append(pending, deliver("wrong-chain", simhdr.WrongChain(w.Ch.At(x)), false))
		case "future":
			// an honest header that the chain has not produced yet: its time is more
			// than the drift allowance ahead of now. It must be refused as long as
			// that is so (judged when the verifier returns); later it is simply valid.
			x := w.NetHead() + 5 + uint64(s.Tape.Draw("ahead-blocks", 40))
			pending = append(pending, deliver("from-future", w.Ch.At(x), true))
		case "stale":
			base := subjective()
			back := uint64(s.Tape.Draw("back", 10))
			if back >= base {
				back = base - 1
			}
			x := base - back
			if x < tailH {
				x = tailH
			}
			// a stale honest header must be refused with an error but may well be stored already
			d := deliver("stale", w.Ch.At(x), true)
			pending = append(pending, d)
		case "stale-fork":
			// a validly signed header of another branch at a height the Syncer is already past: known
			// height, refused whatever it links to - also while a sync is moving headers from the
			// pending set into the store
			if accepted == 0 {
				continue // nothing acknowledged yet: no height is known to be behind the Syncer
			}
			base := accepted
			back := uint64(s.Tape.Draw("fork-back", 10))
			if back >= base {
				back = base - 1
			}
			x := base - back
			if x < tailH {
				x = tailH
			}
			pending = append(pending, deliver("stale-fork", simhdr.Fork(w.Ch.At(x), uint64(i)), false))
		case "duplicate":
			// re-deliver the most recently sent honest head (possibly while it is still
			// being processed) or the last acknowledged one
			var h *H
			for j := len(dels) - 1; j >= 0 && h == nil; j-- {
				if dels[j].honest && dels[j].kind != "stale" && dels[j].kind != "from-future" {
					h = dels[j].h
				}
			}
			if h == nil || s.Tape.Coin("dup-accepted", 1, 3) {
				if accepted == 0 {
					continue
				}
				h = w.Ch.At(accepted)
			}
			pending = append(pending, deliver("duplicate", h, true))
		}
	}
	if liveness && s.Tape.Coin("restart-syncer-mid-flight", 1, 4) {
		restarted = true // (a stopped Syncer may have dropped what it had just been handed)
		// the Syncer is stopped in the middle of whatever it is doing (gossip being verified, a
		// sync running, Head() callers waiting) and a new one is started over the same Store: no
		// hang, no panic, nothing foreign stored, and the new one resumes from the store head
		var stopErr error
		old := w.Sy
		stopT := s.Go("syncer-stop", func() {
			c, cancel := context.WithTimeout(ctx, 10*time.Minute)
			defer cancel()
			stopErr = old.Stop(c)
		})
		if stuck := s.Settle(40*time.Minute, append(pending, stopT)...); len(stuck) > 0 && !s.Failed() {
			s.Violate("hang", map[string]string{"op": opName(stuck[0].Name), "racing": "stop"}, "task %s did not finish while the Syncer was being stopped ops=%v", stuck[0].Name, hist)
			return info()
		}
		pending = nil
		if stopT.Panic != nil {
			s.Violate("panic", map[string]string{"op": "Stop"}, "Syncer.Stop panicked: %v\n%s", stopT.Panic, stopT.Stack)
			return info()
		}
		hist = append(hist, fmt.Sprintf("Syncer stopped mid-flight (err=%v) and restarted", stopErr))
		s.Probe("syncer-restarted-mid-flight")
		w.checkStoreIsHonestChain("after the Syncer was stopped mid-flight", false)
		if s.Failed() {
			return info()
		}
		if err := w.NewSyncer(syOpts...); err != nil {
			s.Aborted = "NewSyncer (restart): " + err.Error()
			return info()
		}
		var rerr error
		rt, rfin := s.Do("syncer-restart", 10*time.Minute, func() { rerr = w.StartSyncer(9 * time.Minute) })
		if rt.Panic != nil || !rfin || rerr != nil {
			s.Violate("start-error", map[string]string{"after": "stop-mid-flight"}, "restarting the Syncer over the same Store: finished=%v panic=%v err=%v ops=%v", rfin, rt.Panic, rerr, hist)
			return info()
		}
	}
	if !settle("end of workload") {
		return info()
	}
	if liveness {
		// faults have stopped; the chain moves on; one more valid head is learned
		faultsLeft = 0
		w.G.RangeFault = nil
		k := 1 + s.Tape.Draw("final-blocks", 20)
		s.Sleep(time.Duration(k) * space)
		target := w.Ch.At(w.NetHead())
		hist = append(hist, fmt.Sprintf("[faults stopped] final head %d", target.Height()))
		var derr error
		t := s.Go("final-gossip", func() { derr = w.Sub.Deliver(ctx, target) })
		if stuck := s.Settle(30*time.Minute, t); len(stuck) > 0 {
			s.Violate("hang", map[string]string{"op": "verifier"}, "the final gossip delivery did not return")
			return info()
		}
		// bounded liveness: virtual-time budget for the remaining sync
		var sh *H
		var swErr error
		deadline := 30 * time.Minute
		t = s.Go("sync-wait", func() {
			c, cancel := context.WithTimeout(ctx, deadline)
			defer cancel()
			swErr = w.Sy.SyncWait(c)
			_ = w.St.Sync(ctx)
			sh, _ = w.St.Head(ctx)
		})
		if stuck := s.Settle(deadline+time.Minute, t); len(stuck) > 0 {
			s.Violate("hang", map[string]string{"op": "SyncWait"}, "SyncWait did not return")
			return info()
		}
		s.Quiesce(time.Second)
		want := target.Height()
		if derr != nil {
			// the last head was refused (e.g. already known): the newest verified head is what was accepted before
			want = accepted
		}
		if derr != nil && accepted < target.Height() {
			s.Violate("valid-head-refused", nil, "with a healthy honest getter the valid head %d was refused: %v (accepted so far %d, trust range %d) ops=%v", target.Height(), derr, accepted, simhdr.Cfg.TrustRange, hist)
			return info()
		}
		w.waitSyncIdle(30 * time.Minute)
		t = s.Go("store-head", func() { _ = w.St.Sync(ctx); sh, _ = w.St.Head(ctx) })
		s.Settle(30*time.Minute, t)
		state := w.Sy.State()
		if sh == nil || sh.Height() < want {
			got := uint64(0)
			if sh != nil {
				got = sh.Height()
			}
			s.Violate("sync-did-not-reach-target", nil, "faults stopped and head %d was learned, but the store head is %d at quiescence (SyncWait err=%v, state=%+v) ops=%v", want, got, swErr, state, hist)
			return info()
		}
		if swErr != nil {
			s.Violate("syncwait-error", nil, "SyncWait: %v", swErr)
		}
		if !state.Finished() || state.Error != "" {
			s.Violate("state-not-finished", nil, "store head %d reached the target but State()=%+v", sh.Height(), state)
		}
		w.checkStoreIsHonestChain("after final sync", true)
	}
	return info()
}
