package props

import (
	"context"
	"errors"
	"fmt"
	"sort"
	"sync"
	"time"

	header "github.com/celestiaorg/go-header"
	"github.com/celestiaorg/go-header/p2p"
	p2p_pb "github.com/celestiaorg/go-header/p2p/pb"

	"verifsim/core"
	"verifsim/simhdr"
)

func runC09(s *core.Sim, tier string) RunInfo {
	simhdr.Reset()
	simhdr.Cfg.TrustRange = uint64(core.Pick(s.Tape, "trust-range", []int{1 << 40, 3, 3}))
	np := 1 + s.Tape.Draw("peers", 6)
	w, err := newXW(s, np)
	if err != nil {
		s.Aborted = "mocknet: " + err.Error()
		return RunInfo{}
	}
	defer w.teardown()
	w.Ch = simhdr.NewChain("sim-chain", 1, time.Now().Add(-10*time.Hour), 3*time.Second)
	withTrusted := s.Tape.Coin("with-trusted-head", 1, 2)
	tH := uint64(20)
	trustedHead := w.Ch.At(tH)
	// candidate answers
	A := w.Ch.At(tH + 1 + uint64(s.Tape.Draw("a", 3))) // verifies directly
	B := w.Ch.At(A.Height() + 1 + uint64(s.Tape.Draw("b", 3)))
	C := w.Ch.At(tH + 10 + uint64(s.Tape.Draw("c", 20))) // soft-fails against the trusted head when the trust range is short
	kinds := []string{"A", "A", "B", "C", "invalid", "wrong-chain", "error", "hang", "hard", "forged"}
	rng := s.Sub("peers")
	var mu sync.Mutex
	var arrivals []int // peer indices in the order their replies were written
	answers := make([]*H, np+1)
	kindOf := make([]string, np+1)
	var desc []string
	var all []int
	for i := 1; i <= np; i++ {
		kind := core.Pick(s.Tape, "kind", kinds)
		kindOf[i] = kind
		desc = append(desc, fmt.Sprintf("peer%d=%s", i, kind))
		all = append(all, i)
		i := i
		var memo *Reply // a peer answers every request of a run alike (two callers may ask it)
		w.AddScriptPeer(i, func(n int, req *p2p_pb.HeaderRequest) Reply {
			mu.Lock()
			if memo != nil {
				r := *memo
				mu.Unlock()
				return r
			}
			mu.Unlock()
			r := Reply{Kind: kind, Service: 50 * time.Millisecond}
			var h *H
			switch kind {
			case "A":
				h = A
			case "B":
				h = B
			case "C":
				h = C
			case "invalid":
				c := simhdr.Clone(A)
				c.BadValidate = true
				r.Frames = okFrames(c.Sign())
			case "wrong-chain":
				r.Frames = okFrames(simhdr.WrongChain(A))
			case "error":
				if rng.Coin("nf", 1, 2) {
					r.Frames = []frame{notFoundFrame()}
				} else {
					r.Reset = true
				}
			case "hang":
				r.Hang = true
			case "hard": // fails a mandatory check against the trusted head: stale height
				h = w.Ch.At(tH - uint64(rng.Draw("back", 5)))
			case "forged": // adjacent to the trusted head with a bad signature: hard type-level failure
				h = simhdr.ForgeSig(w.Ch.At(tH+1), uint64(i))
			}
			if h != nil {
				r.Frames = okFrames(h)
				answers[i] = h
			}
			mu.Lock()
			arrivals = append(arrivals, i)
			memo = &r
			mu.Unlock()
			return r
		})
	}
	// sometimes nobody is connected yet when Head(WithTrustedHead) is called: the peer tracker is
	// empty and the request falls back to the trusted peers - whose answers are still only to be
	// believed as far as they verify against the trusted head
	emptyTracker := withTrusted && s.Tape.Coin("no-tracked-peers", 1, 3)
	if err := w.StartClient(w.PeerIDs(all...), all, p2p.WithRequestTimeout[p2p.ClientParameters](time.Second)); err != nil {
		s.Aborted = "client start: " + err.Error()
		return RunInfo{}
	}
	if s.Tape.Coin("exchange-restarted", 1, 5) {
		// the same Exchange object is stopped and started again before it is asked
		var rerr error
		_, rfin := s.Do("exchange-restart", time.Minute, func() {
			c, cancel := context.WithTimeout(context.Background(), 30*time.Second)
			defer cancel()
			if rerr = w.Ex.Stop(c); rerr == nil {
				rerr = w.Ex.Start(c)
			}
		})
		if !rfin || rerr != nil {
			s.Violate("restart-error", nil, "Stop+Start of the same Exchange: finished=%v err=%v", rfin, rerr)
			return RunInfo{Nontrivial: true, Evals: 1}
		}
		s.Quiesce(500 * time.Millisecond)
		s.Quiesce(500 * time.Millisecond)
		s.Probe("same-exchange-restarted")
	}
	if emptyTracker {
		// every connection is lost before the call: the tracker holds no connected peer
		for _, i := range all {
			_ = w.Net.DisconnectPeers(w.Hosts[0].ID(), w.Hosts[i].ID())
		}
		s.Quiesce(500 * time.Millisecond)
		s.Probe("trusted-head-with-empty-tracker")
	}
	// record the order in which replies are released by the scheduler: wrap the
	// script's arrival record with the moment the reply is actually written.
	var got *H
	var gerr error
	deadline := 2 * time.Second
	askHead := func(ctx context.Context) (*H, error) {
		if withTrusted {
			return w.Ex.Head(ctx, header.WithTrustedHead[*H](trustedHead))
		}
		return w.Ex.Head(ctx)
	}
	// a second caller on the same Exchange at the same time (another Head, judged alike, or a
	// GetByHeight, which shares the trusted-peer list with it): only where both callers ask the
	// same set of peers, so that one oracle fits both (with a trusted head the tracked peers are
	// asked, up to four of them, and the first call changes who is tracked)
	second := ""
	if !withTrusted || (np <= 4 && !emptyTracker) {
		second = core.Pick(s.Tape, "second-caller", []string{"", "", "head", "get"})
	}
	var got2 *H
	var gerr2 error
	var t2 *core.Task
	if second != "" {
		s.Probe("second-caller-" + second)
		t2 = s.Go("second-"+second, func() {
			ctx, cancel := context.WithTimeout(context.Background(), deadline)
			defer cancel()
			if second == "head" {
				got2, gerr2 = askHead(ctx)
			} else {
				_, _ = w.Ex.GetByHeight(ctx, A.Height())
			}
		})
	}
	t := s.Go("head", func() {
		ctx, cancel := context.WithTimeout(context.Background(), deadline)
		defer cancel()
		got, gerr = askHead(ctx)
	})
	fin, fin2 := true, true
	waitFor := []*core.Task{t}
	if t2 != nil {
		waitFor = append(waitFor, t2)
	}
	for _, st := range s.Settle(deadline+2*time.Second, waitFor...) {
		if st == t {
			fin = false
		} else {
			fin2 = false
		}
	}
	// which peers were asked
	var asked []int
	for _, p := range w.Peers {
		p.mu.Lock()
		if p.nreq > 0 {
			asked = append(asked, p.Idx)
		}
		p.mu.Unlock()
	}
	sort.Ints(asked)
	info := RunInfo{Nontrivial: np > 1, StateKey: fmt.Sprint(desc, withTrusted, simhdr.Cfg.TrustRange), Evals: 1,
		Sample: map[string]any{"peers": desc, "with_trusted_head": withTrusted, "trust_range": simhdr.Cfg.TrustRange, "asked": asked, "result": fmt.Sprint(got), "err": fmt.Sprint(gerr)}}
	at := map[string]string{"trusted": fmt.Sprint(withTrusted)}
	if t.Panic != nil {
		s.Violate("panic", at, "Head panicked: %v\n%s", t.Panic, t.Stack)
		return info
	}
	if t2 != nil && t2.Panic != nil {
		s.Violate("panic", at, "the second caller (%s) panicked: %v\n%s", second, t2.Panic, t2.Stack)
		return info
	}
	if !fin || !fin2 {
		s.Violate("hang", at, "Head did not return within its deadline [%v second=%q]", desc, second)
		return info
	}
	// --- the statement, replayed over what the asked peers supplied
	n := len(asked)
	wantAsked := np
	if withTrusted && np > 4 && !emptyTracker {
		wantAsked = 4 // (with nobody tracked the request falls back to all trusted peers)
	}
	if n > wantAsked || n == 0 {
		s.Violate("asked-peers", at, "%d peers were asked, expected at most %d of %d [%v]", n, wantAsked, np, desc)
		return info
	}
	q := n
	if n > 2 {
		q = (2*n + 2) / 3
	}
	judgeAgainst := func(th *H, got *H, gerr error) {
		type cand struct {
			h    *H
			soft bool
			cnt  int
		}
		cands := map[string]*cand{}
		hanging := 0
		for _, i := range asked {
			if kindOf[i] == "hang" {
				hanging++
			}
			h := answers[i]
			if h == nil {
				continue
			}
			if withTrusted {
				v := simhdr.ModelVerify(time.Now(), 10*time.Second, th, h)
				if !v.OK && !(v.TypeErr && v.Soft) {
					continue // hard failure: not a supplied header
				}
				c := cands[string(h.Hash())]
				if c == nil {
					c = &cand{h: h, soft: !v.OK}
					cands[string(h.Hash())] = c
				}
				c.cnt++
			} else {
				c := cands[string(h.Hash())]
				if c == nil {
					c = &cand{h: h}
					cands[string(h.Hash())] = c
				}
				c.cnt++
			}
		}
		var quorum []*cand
		var highest uint64
		for _, c := range cands {
			if c.cnt >= q {
				quorum = append(quorum, c)
			}
			if c.h.Height() > highest {
				highest = c.h.Height()
			}
		}
		isSoftErr := func(err error) bool {
			var ve *header.VerifyError
			return errors.As(err, &ve) && ve.SoftFailure
		}
		switch {
		case got != nil && (gerr == nil || isSoftErr(gerr)):
			c := cands[string(got.Hash())]
			if c == nil {
				s.Violate("unsupplied-head-returned", at, "Head returned %v which no asked peer supplied as an acceptable header [%v trustRange=%d]", got, desc, simhdr.Cfg.TrustRange)
				return
			}
			if withTrusted && c.soft != (gerr != nil) {
				s.Violate("trusted-head-verdict", map[string]string{"soft": fmt.Sprint(c.soft)}, "Head(WithTrustedHead(%d)) returned %v with err=%v; against the trusted head it is soft-failing=%v", th.Height(), got, gerr, c.soft)
				return
			}
			if !withTrusted && gerr != nil {
				s.Violate("unexpected-error", at, "Head returned %v with %v", got, gerr)
				return
			}
			if len(quorum) > 0 {
				ok := false
				for _, qc := range quorum {
					if simhdr.Equal(qc.h, got) {
						ok = true
					}
				}
				// with several quorum candidates or hanging peers the first to reach quorum wins; any of them is acceptable
				if !ok && hanging == 0 && len(cands) > 0 {
					// every asked peer answered: if no quorum header was returned the result must at least be the highest
					if got.Height() != highest {
						s.Violate("quorum-ignored", at, "a header reported by >=%d of %d asked peers exists (%v) but Head returned %v [%v]", q, n, quorum[0].h, got, desc)
					}
				}
			} else if hanging == 0 && got.Height() != highest {
				s.Violate("not-the-highest", at, "no quorum among %d asked peers; highest reported is %d but Head returned %v [%v]", n, highest, got, desc)
			}
			s.Probe("head-returned")
		case got == nil && gerr != nil:
			switch {
			case errors.Is(gerr, header.ErrNotFound):
				if len(cands) > 0 && hanging == 0 {
					s.Violate("supplied-head-dropped", at, "Head returned ErrNotFound although %d acceptable headers were supplied [%v]", len(cands), desc)
				}
			case errors.Is(gerr, context.DeadlineExceeded):
				if hanging == 0 {
					s.Violate("deadline-without-hanging-peer", at, "Head ran into the caller's deadline although every asked peer answered [%v]", desc)
				}
				if len(quorum) > 0 {
					// a quorum of answers existed even without the hanging peers
					s.Violate("quorum-not-early", at, "a quorum (%d of %d) was available without the hanging peers but Head waited for the deadline [%v]", q, n, desc)
				}
			default:
				s.Violate("unexpected-error", at, "Head: %v [%v]", gerr, desc)
			}
			s.Probe("head-error")
		case got == nil && gerr == nil:
			s.Violate("zero-header-nil-error", at, "Head returned a zero header and nil error")
		default:
			s.Violate("header-with-hard-error", at, "Head returned %v together with the non-soft error %v", got, gerr)
		}
	}
	judge := func(got *H, gerr error) { judgeAgainst(trustedHead, got, gerr) }
	judge(got, gerr)
	if second == "head" && len(s.Violations) == 0 {
		judge(got2, gerr2)
	}
	if withTrusted && np <= 4 && !emptyTracker && len(s.Violations) == 0 && s.Tape.Coin("then-another-trusted-head", 1, 3) {
		// the same Exchange is asked again with a different trusted head: the verdict on what the
		// peers report is a verdict against *that* head
		th2 := core.Pick(s.Tape, "other-trusted", []*H{simhdr.WrongChain(trustedHead), w.Ch.At(C.Height() + 5), w.Ch.At(tH - 5), w.Ch.At(tH + 1)})
		var got3 *H
		var gerr3 error
		t3, fin3 := s.Do("head-again", deadline+2*time.Second, func() {
			ctx, cancel := context.WithTimeout(context.Background(), deadline)
			defer cancel()
			got3, gerr3 = w.Ex.Head(ctx, header.WithTrustedHead[*H](th2))
		})
		s.Probe("head-again-with-another-trusted-head")
		if t3.Panic != nil {
			s.Violate("panic", at, "the second Head panicked: %v\n%s", t3.Panic, t3.Stack)
		} else if !fin3 {
			s.Violate("hang", at, "the second Head did not return within its deadline [%v]", desc)
		} else {
			at = map[string]string{"trusted": "second"}
			judgeAgainst(th2, got3, gerr3)
		}
	}
	return info
}
