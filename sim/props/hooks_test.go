package props

import (
	"github.com/celestiaorg/go-header/p2p"
	"github.com/celestiaorg/go-header/store"
	hsync "github.com/celestiaorg/go-header/sync"

	"verifsim/core"
)

// installHooks points go-header's verif-tagged scheduling points at the
// simulator of the current run (or detaches them).
func installHooks(s *core.Sim, on bool) {
	if s == nil {
		store.SimSetDeleteParallelThreshold(10000)
	}
	if s == nil {
		store.SimAutoYield, store.SimLockDepth = nil, nil
		hsync.SimAutoYield, hsync.SimLockDepth = nil, nil
		p2p.SimAutoYield, p2p.SimLockDepth = nil, nil
	} else {
		// the mechanically inserted park points (sim/autoyield); live only when the run says so
		store.SimAutoYield, store.SimLockDepth = s.AutoYield, s.LockDepth
		hsync.SimAutoYield, hsync.SimLockDepth = s.AutoYield, s.LockDepth
		p2p.SimAutoYield, p2p.SimLockDepth = s.AutoYield, s.LockDepth
	}
	if s == nil || !on {
		store.SimHook.Yield = nil
		hsync.SimHook.Yield, hsync.SimHook.Acquire, hsync.SimHook.Release = nil, nil, nil
		return
	}
	store.SimHook.Yield = s.Yield
	hsync.SimHook.Yield = s.Yield
	hsync.SimHook.Acquire = s.Acquire
	hsync.SimHook.Release = s.Release
}
