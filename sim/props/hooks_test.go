package props

import (
	"github.com/celestiaorg/go-header/store"

	"verifsim/core"
)

// installHooks points go-header's verif-tagged scheduling points at the
// simulator of the current run (or detaches them).
func installHooks(s *core.Sim, on bool) {
	if s == nil || !on {
		store.SimHook.Yield = nil
		return
	}
	store.SimHook.Yield = s.Yield
}
