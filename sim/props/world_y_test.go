package props

import (
	"context"
	"errors"
	"fmt"
	"sync"
	"time"

	header "github.com/celestiaorg/go-header"
	"github.com/celestiaorg/go-header/store"
	hsync "github.com/celestiaorg/go-header/sync"

	"verifsim/core"
	"verifsim/simdisk"
	"verifsim/simhdr"
)

// --- SimGetter: the contract-abiding getter on the other side of the Syncer -------------

type GCall struct {
	Op      string
	A, B    uint64 // GetByHeight: A=height; range: A=from.Height, B=to
	Trusted uint64 // Head: height of TrustedHead (0 = none)
	N       int    // range: headers returned
	Err     string
	At      time.Duration
}

type SimGetter struct {
	S  *core.Sim
	Ch *simhdr.Chain
	// NetHead is the height of the network head now.
	NetHead func() uint64
	// Cost of one call in virtual time (never zero: zero-cost retry loops would livelock a bubble).
	Cost time.Duration

	mu    sync.Mutex
	Calls []GCall

	// fault scripts (nil = honest and healthy)
	RangeFault    func(n int, from, to uint64) (maxLen int, err error) // maxLen>0 truncates to a prefix
	ByHeightFault func(n int, h uint64) error
	HeadFault     func(n int, trusted *H) (*H, error, bool) // ok=false => honest answer
	nRange, nByH  int
	nHead         int
	HeadGate      chan struct{} // if set, Head calls wait on it (to overlap callers)
	// MaxServed is the highest height any answered range request has delivered (from+len)
	MaxServed uint64
}

func (g *SimGetter) rec(c GCall) {
	c.At = g.S.Now()
	g.mu.Lock()
	g.Calls = append(g.Calls, c)
	g.mu.Unlock()
	g.S.Log.Addf("getter %s a=%d b=%d trusted=%d -> n=%d err=%s", c.Op, c.A, c.B, c.Trusted, c.N, c.Err)
}

func (g *SimGetter) CallsCopy() []GCall {
	g.mu.Lock()
	defer g.mu.Unlock()
	return append([]GCall(nil), g.Calls...)
}

func (g *SimGetter) Count(op string) int {
	n := 0
	for _, c := range g.CallsCopy() {
		if c.Op == op {
			n++
		}
	}
	return n
}

func (g *SimGetter) pre(ctx context.Context, label string) error {
	cost := g.Cost
	if cost <= 0 {
		cost = time.Millisecond
	}
	// the call costs virtual time; a caller's deadline that falls earlier ends it early
	if dl, ok := ctx.Deadline(); ok {
		if left := time.Until(dl); left < cost {
			if left < 0 {
				left = 0
			}
			g.S.YieldAfter("getter:"+label, left)
			if err := ctx.Err(); err != nil {
				return err
			}
			return context.DeadlineExceeded
		}
	}
	g.S.YieldAfter("getter:"+label, cost)
	return ctx.Err()
}

func (g *SimGetter) Head(ctx context.Context, opts ...header.HeadOption[*H]) (*H, error) {
	var p header.HeadParams[*H]
	for _, o := range opts {
		o(&p)
	}
	g.mu.Lock()
	g.nHead++
	n := g.nHead
	gate := g.HeadGate
	g.mu.Unlock()
	c := GCall{Op: "Head"}
	if p.TrustedHead != nil {
		c.Trusted = p.TrustedHead.Height()
	}
	if err := g.pre(ctx, fmt.Sprintf("Head:%d", c.Trusted)); err != nil {
		c.Err = err.Error()
		g.rec(c)
		return nil, err
	}
	if gate != nil {
		select {
		case <-gate:
		case <-ctx.Done():
			c.Err = ctx.Err().Error()
			g.rec(c)
			return nil, ctx.Err()
		}
	}
	var h *H
	if g.HeadFault != nil {
		if fh, ferr, ok := g.HeadFault(n, p.TrustedHead); ok {
			if ferr != nil {
				c.Err = ferr.Error()
				g.rec(c)
				return nil, ferr
			}
			h = fh
		}
	}
	if h == nil {
		h = g.Ch.At(g.NetHead())
	}
	c.A = h.Height()
	if p.TrustedHead != nil {
		// the Head contract: a soft-failing head is returned together with
		// its *VerifyError, a hard-failing one is not returned at all
		if err := header.Verify(p.TrustedHead, h); err != nil {
			var ve *header.VerifyError
			if errors.As(err, &ve) && ve.SoftFailure {
				c.Err = "soft: " + err.Error()
				g.rec(c)
				return h, err
			}
			c.Err = "hard: " + err.Error()
			g.rec(c)
			return nil, header.ErrNotFound
		}
	}
	c.N = 1
	g.rec(c)
	return h, nil
}

func (g *SimGetter) Get(ctx context.Context, hash header.Hash) (*H, error) {
	c := GCall{Op: "Get"}
	if err := g.pre(ctx, "Get:"+hash.String()[:6]); err != nil {
		c.Err = err.Error()
		g.rec(c)
		return nil, err
	}
	top := g.NetHead()
	for h := g.Ch.First; h <= top; h++ {
		if string(g.Ch.At(h).Hash()) == string(hash) {
			c.A, c.N = h, 1
			g.rec(c)
			return g.Ch.At(h), nil
		}
	}
	c.Err = "not found"
	g.rec(c)
	return nil, header.ErrNotFound
}

func (g *SimGetter) GetByHeight(ctx context.Context, h uint64) (*H, error) {
	g.mu.Lock()
	g.nByH++
	n := g.nByH
	g.mu.Unlock()
	c := GCall{Op: "GetByHeight", A: h}
	if err := g.pre(ctx, fmt.Sprintf("GetByHeight:%d", h)); err != nil {
		c.Err = err.Error()
		g.rec(c)
		return nil, err
	}
	if g.ByHeightFault != nil {
		if err := g.ByHeightFault(n, h); err != nil {
			c.Err = err.Error()
			g.rec(c)
			g.S.Fault("getter-byheight-error")
			return nil, err
		}
	}
	if h < g.Ch.First || h > g.NetHead() {
		c.Err = "not found"
		g.rec(c)
		return nil, header.ErrNotFound
	}
	c.N = 1
	g.rec(c)
	return g.Ch.At(h), nil
}

func (g *SimGetter) GetRangeByHeight(ctx context.Context, from *H, to uint64) ([]*H, error) {
	g.mu.Lock()
	g.nRange++
	n := g.nRange
	g.mu.Unlock()
	c := GCall{Op: "GetRangeByHeight", A: from.Height(), B: to}
	if err := g.pre(ctx, fmt.Sprintf("Range:%d:%d", from.Height(), to)); err != nil {
		c.Err = err.Error()
		g.rec(c)
		return nil, err
	}
	maxLen := 0
	if g.RangeFault != nil {
		ml, err := g.RangeFault(n, from.Height(), to)
		if err != nil {
			c.Err = err.Error()
			g.rec(c)
			g.S.Fault("getter-range-error")
			return nil, err
		}
		maxLen = ml
	}
	lo, hi := from.Height()+1, to-1
	if nh := g.NetHead(); hi > nh {
		hi = nh
	}
	if to <= from.Height()+1 || hi < lo || lo < g.Ch.First {
		c.Err = "not found"
		g.rec(c)
		return nil, header.ErrNotFound
	}
	if maxLen > 0 && uint64(maxLen) < hi-lo+1 {
		hi = lo + uint64(maxLen) - 1
		g.S.Fault("getter-partial-range")
	}
	out := g.Ch.Range(lo, hi)
	c.N = len(out)
	g.rec(c)
	g.mu.Lock()
	if top := from.Height() + uint64(len(out)); top > g.MaxServed {
		g.MaxServed = top
	}
	g.mu.Unlock()
	return out, nil
}

// --- SimSub: captures the Syncer's verifier; a gossip delivery is a call of it -------------

type SimSub struct {
	mu       sync.Mutex
	verifier func(context.Context, *H) error
}

func (s *SimSub) SetVerifier(f func(context.Context, *H) error) error {
	s.mu.Lock()
	defer s.mu.Unlock()
	s.verifier = f
	return nil
}

func (s *SimSub) Subscribe() (header.Subscription[*H], error) { return nopSub{}, nil }

func (s *SimSub) Deliver(ctx context.Context, h *H) error {
	s.mu.Lock()
	f := s.verifier
	s.mu.Unlock()
	if f == nil {
		return errors.New("no verifier set")
	}
	return f(ctx, h)
}

type nopSub struct{}

func (nopSub) NextHeader(ctx context.Context) (*H, error) { <-ctx.Done(); return nil, ctx.Err() }
func (nopSub) Cancel()                                     {}

// --- world Y -----------------------------------------------------------------------------

type YW struct {
	S     *core.Sim
	Ch    *simhdr.Chain
	Disk  *simdisk.Disk
	St    *store.Store[*H]
	G     *SimGetter
	Sub   *SimSub
	Sy    *hsync.Syncer[*H]
	Space time.Duration
	Flav  string // datastore flavour handed to the Store: "plain", "ctx" or "snap"
	Opts  []hsync.Option
	// Halt freezes block production at this height when non-zero.
	Halt uint64
	// ParkStoreCalls puts the ParkStore seam between the Syncer and the Store.
	ParkStoreCalls bool
	// Metrics: Store and Syncer are built with their metrics on (configuration knob)
	Metrics bool
	// OracleAttrs are added to the attributes of storage-oracle violations (so that a listed
	// finding can be told from others of the same class)
	OracleAttrs map[string]string
}

// newYW builds a chain whose head is at height `age` now and that keeps growing
// by one block per `space` of virtual time.
func newYW(s *core.Sim, first, age uint64, space time.Duration) *YW {
	w := &YW{S: s, Space: space}
	genesis := time.Now().Add(-time.Duration(age-first) * space)
	w.Ch = simhdr.NewChain("sim-chain", first, genesis, space)
	w.Disk = simdisk.New("y0", s)
	w.Disk.ErrWraps = core.Pick(s.Tape, "disk-error-kind", []error{nil, nil, context.DeadlineExceeded, context.Canceled})
	w.G = &SimGetter{S: s, Ch: w.Ch, NetHead: w.NetHead, Cost: time.Millisecond}
	w.Sub = &SimSub{}
	return w
}

func (w *YW) NetHead() uint64 {
	h := w.Ch.First + uint64(time.Since(w.Ch.Genesis)/w.Space)
	if w.Halt != 0 && h > w.Halt {
		h = w.Halt
	}
	return h
}

// configureDisk picks the datastore flavour and, sometimes, makes every datastore
// operation a park point with occasional latency, so that the Store's own goroutine
// interleaves with the Syncer's and appends can meet a full write queue.
func (w *YW) configureDisk() {
	s := w.S
	w.Flav = core.Pick(s.Tape, "flavour", []string{"plain", "ctx", "snap"})
	if s.Tape.Coin("disk-write-errors", 1, 4) {
		// a window of consecutive failing datastore writes somewhere in the run: the Store retries
		// its flushes, Appends may meet a full write queue, and the Syncer above must neither lose
		// a header nor leave a gap (and, for C07, still reach its target once the window is over)
		at := s.Tape.Draw("disk-fail-at", 80)
		n := core.Pick(s.Tape, "disk-fail-n", []int{1, 2, 3, 5, 8})
		w.Disk.Fault = func(class, op, key string, idx int) error {
			if class == "write" && idx >= at && idx < at+n {
				return simdisk.ErrInjected
			}
			return nil
		}
		s.Probe("disk-write-error-window")
	}
	w.ParkStoreCalls = s.Tape.Coin("park-store-calls", 1, 3)
	w.Metrics = s.Tape.Coin("metrics", 1, 3)
	if s.Tape.Coin("park-disk", 1, 3) {
		w.Disk.Park = true
		drng := s.Sub("disk-latency")
		w.Disk.Latency = func(op string) time.Duration {
			if drng.Coin("stall", 1, 10) {
				s.Fault("disk-latency-stall")
				return time.Duration(1+drng.Draw("stall-ms", 2000)) * time.Millisecond
			}
			return 0
		}
	}
}

// OpenStore creates and starts the Store.
func (w *YW) OpenStore(p store.Parameters) error {
	var err error
	_, fin := w.S.Do("open-store", opBudget, func() {
		sopts := []store.Option{store.WithParams(p)}
		if w.Metrics {
			sopts = append(sopts, store.WithMetrics())
		}
		w.St, err = store.NewStore[*H](w.Disk.Flavour(w.Flav), sopts...)
		if err == nil {
			err = startStore(w.St)
		}
	})
	if !fin {
		return errors.New("store start did not finish")
	}
	return err
}

func (w *YW) NewSyncer(opts ...hsync.Option) error {
	var err error
	var st header.Store[*H] = w.St
	if w.ParkStoreCalls {
		// every call the Syncer makes to its Store becomes a pair of park points
		st = &ParkStore{S: w.S, St: w.St}
		w.S.Probe("store-calls-are-park-points")
	}
	if w.Metrics {
		opts = append(opts, hsync.WithMetrics())
	}
	w.Sy, err = hsync.NewSyncer[*H](w.G, st, w.Sub, opts...)
	return err
}

// StartSyncer starts the Syncer the way applications do: with a context that only bounds the
// start and is cancelled as soon as Start has returned.
func (w *YW) StartSyncer(limit time.Duration) error {
	ctx, cancel := context.WithTimeout(context.Background(), limit)
	defer cancel()
	return w.Sy.Start(ctx)
}

// storedHeights reads the raw datastore: height index keys present.
func (w *YW) storedHeights() map[uint64][]byte {
	out := map[uint64][]byte{}
	for _, k := range w.Disk.Keys() {
		var h uint64
		if _, err := fmt.Sscanf(k, "/headers/%d", &h); err == nil && fmt.Sprintf("/headers/%d", h) == k {
			v, _ := w.Disk.Raw(k)
			out[h] = v
		}
	}
	return out
}

// checkStoreIsHonestChain is C03/C16's storage oracle: after a Sync every
// stored header (API and raw datastore) is the honest chain's, and the stored
// heights form one gap-free run Tail..Head.
func (w *YW) checkStoreIsHonestChain(why string, needContiguous bool) {
	// "one gap-free run" is a statement about quiescence. A gap seen while headers are still
	// arriving (a long sync behind a slow disk can outlast any waiting budget) is re-examined
	// after more virtual time; only a gap that persists is reported.
	for attempt := 0; ; attempt++ {
		gap := w.checkStoreOnce(why, needContiguous, attempt < 3)
		if !gap || w.S.Failed() {
			return
		}
		w.S.Probe("gap-rechecked-after-more-time")
		if w.Sy != nil {
			w.waitSyncIdle(2 * time.Hour)
		} else {
			w.S.Quiesce(time.Minute)
		}
	}
}

// checkStoreOnce does one pass; with deferGap it reports a contiguity problem to the caller
// (true) instead of recording a violation.
func (w *YW) checkStoreOnce(why string, needContiguous, deferGap bool) (gapSeen bool) {
	s := w.S
	if w.Sy != nil && needContiguous {
		// "one gap-free run" is a statement about quiescence: while the sync loop is still in
		// the middle of a sync (a very long one behind a slow disk can outlast the waiting
		// budget) headers keep arriving between the reads below
		if st := w.Sy.State(); st.ID != 0 && st.Start.After(st.End) {
			needContiguous = false
			s.Probe("contiguity-not-judged-sync-still-running")
		}
	}
	var head, tail *H
	var herr, terr error
	fin := false
	t := s.Go("store-oracle", func() {
		ctx := context.Background()
		if err := w.St.Sync(ctx); err != nil {
			return
		}
		head, herr = w.St.Head(ctx)
		tail, terr = w.St.Tail(ctx)
		fin = true
	})
	stuck := s.Settle(opBudget, t)
	for n := 0; len(stuck) > 0 && n < 200; n++ {
		// a long backlog of queued writes behind a stalling disk is not a hang: keep waiting
		// while the datastore still makes progress
		before := w.Disk.LogLen()
		stuck = s.Settle(opBudget, t)
		if len(stuck) > 0 && w.Disk.LogLen() == before {
			break
		}
		s.Probe("store-oracle-waited-for-backlog")
	}
	if len(stuck) > 0 || !fin {
		if !s.Failed() {
			s.Violate("hang", map[string]string{"op": "Store.Sync"}, "[%s] store oracle did not finish", why)
		}
		return
	}
	idx := w.storedHeights()
	for _, h := range sortedHeights(idx) {
		hash := idx[h]
		want := w.Ch.At(h)
		if want == nil || string(want.Hash()) != string(hash) {
			s.Violate("foreign-header-stored", map[string]string{"where": "index"}, "[%s] height index %d points to %X which is not the honest chain's header", why, h, hash)
			return
		}
		raw, ok := w.Disk.Raw("/headers/" + header.Hash(hash).String())
		if !ok {
			continue
		}
		got := new(H)
		if err := got.UnmarshalBinary(raw); err != nil || !simhdr.Equal(got, want) {
			s.Violate("foreign-header-stored", map[string]string{"where": "data"}, "[%s] stored bytes for height %d are not the honest header", why, h)
			return
		}
	}
	// every header key must belong to the honest chain
	for _, k := range w.Disk.Keys() {
		name := k[len("/headers/"):]
		if len(name) != 64 {
			continue
		}
		raw, _ := w.Disk.Raw(k)
		got := new(H)
		if err := got.UnmarshalBinary(raw); err != nil || !w.Ch.Is(got) {
			s.Violate("foreign-header-stored", map[string]string{"where": "hash-key"}, "[%s] datastore holds header %v which is not on the honest chain", why, got)
			return
		}
	}
	if herr != nil || terr != nil {
		if len(idx) > 0 {
			s.Violate("store-ends-missing", nil, "[%s] %d headers stored but Head err=%v Tail err=%v", why, len(idx), herr, terr)
		}
		return
	}
	if !w.Ch.Is(head) || !w.Ch.Is(tail) {
		s.Violate("foreign-header-stored", map[string]string{"where": "ends"}, "[%s] Head=%v Tail=%v not on the honest chain", why, head, tail)
		return
	}
	if tail.Height() < 1 || tail.Height() > head.Height() {
		s.Violate("tail-outside-chain", nil, "[%s] Tail=%d Head=%d", why, tail.Height(), head.Height())
		return
	}
	if needContiguous {
		for h := tail.Height(); h <= head.Height(); h++ {
			if _, ok := idx[h]; !ok {
				if deferGap {
					return true
				}
				s.Violate("gap-in-store", map[string]string{"where": "inside"}, "[%s] Tail=%d Head=%d but height %d is not stored", why, tail.Height(), head.Height(), h)
				return false
			}
		}
		for _, h := range sortedHeights(idx) {
			if h < tail.Height() || h > head.Height() {
				if deferGap {
					return true
				}
				at := map[string]string{"where": "outside"}
				for k, v := range w.OracleAttrs {
					at[k] = v
				}
				s.Violate("gap-in-store", at, "[%s] height %d is stored outside Tail=%d..Head=%d", why, h, tail.Height(), head.Height())
				return false
			}
		}
	}
	return false
}

// waitSyncIdle lets virtual time pass until the Syncer's sync loop is not in the
// middle of a sync (State().Start is not after State().End) and the Store has
// flushed what it was handed, or the budget runs out. It asserts nothing.
func (w *YW) waitSyncIdle(budget time.Duration) {
	s := w.S
	deadline := time.Now().Add(budget)
	for time.Now().Before(deadline) && s.Aborted == "" {
		s.Quiesce(time.Second)
		st := w.Sy.State()
		if st.ID == 0 || !st.Start.After(st.End) {
			break
		}
		s.Sleep(5 * time.Second)
	}
	t := s.Go("store-sync", func() {
		c, cancel := context.WithTimeout(context.Background(), budget)
		defer cancel()
		_ = w.St.Sync(c)
	})
	s.Settle(budget+time.Minute, t)
	s.Quiesce(time.Second)
}

func (w *YW) teardown() {
	s := w.S
	s.Log.Freeze()
	if w.Sy != nil {
		sy := w.Sy
		s.Go("stop-syncer", func() { _ = sy.Stop(context.Background()) })
	}
	s.Quiesce(0)
	if w.St != nil {
		st := w.St
		// (no more injected write errors: the Store's last flush would sleep before its retry, and
		// a bubble that ends while somebody sleeps counts as leaked)
		w.Disk.Fault = nil
		t := s.Go("stop-store", func() {
			ctx, cancel := context.WithTimeout(context.Background(), time.Minute)
			defer cancel()
			_ = st.Stop(ctx)
		})
		s.Settle(2*time.Minute, t)
	}
	s.Quiesce(0)
}
