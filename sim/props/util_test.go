package props

import "context"

func ctxBG() context.Context { return context.Background() }
