package props

import (
	"errors"
	"fmt"
	"time"

	header "github.com/celestiaorg/go-header"

	"verifsim/core"
	"verifsim/simhdr"
)

// C01 - Verify accepts only headers passing every mandatory and type-level check.
// The only simulated element is the clock (verify() reads time.Now()); the rest
// is seeded generation against the reference model simhdr.ModelVerify.
func init() {
	register(&Scenario{ID: "C01", World: "V", Run: runC01})
	register(&Scenario{ID: "C02", World: "V", Run: runC02})
}

// calibrateDrift bisects the acceptance boundary of "time ahead of now" with an
// otherwise valid adjacent pair. The allowance is measured, not mirrored.
func calibrateDrift(s *core.Sim, ch *simhdr.Chain, base uint64) (time.Duration, bool) {
	t := ch.At(base)
	accept := func(d time.Duration) bool {
		u := simhdr.Retime(ch.At(base+1), time.Now().Add(d))
		return header.Verify(t, u) == nil
	}
	if !accept(0) {
		s.Violate("calibration", nil, "a valid adjacent header dated now is rejected: %v", header.Verify(t, simhdr.Retime(ch.At(base+1), time.Now())))
		return 0, false
	}
	lo, hi := time.Duration(0), 24*time.Hour
	if accept(hi) {
		s.Violate("from-future-accepted", nil, "a header dated 24h ahead of now is accepted")
		return 0, false
	}
	for hi-lo > 1 {
		mid := lo + (hi-lo)/2
		if accept(mid) {
			lo = mid
		} else {
			hi = mid
		}
	}
	// sharpness: a few probes around the boundary
	for _, d := range []time.Duration{0, lo / 2, lo - 1, lo} {
		if !accept(d) {
			s.Violate("drift-boundary-not-sharp", nil, "accepts now+%v but rejects now+%v", lo, d)
			return 0, false
		}
	}
	for _, d := range []time.Duration{lo + 1, lo + time.Second, 2 * lo, 100 * time.Hour} {
		if accept(d) {
			s.Violate("drift-boundary-not-sharp", nil, "rejects now+%v but accepts now+%v", lo+1, d)
			return 0, false
		}
	}
	return lo, true
}

type c01case struct {
	tZero, uZero bool
	chainDiff    bool
	hrel         int // 0:<  1:=  2:+1  3:>+1  4:+2^63
	trel         int // u.Time vs t.Time: 0:<  1:=  2:>
	nrel         int // u.Time vs now: 0: in the past  1: =now+drift  2: now+drift+1ns  3: far future
	shape        simhdr.Shape
}

func (c c01case) String() string {
	return fmt.Sprintf("tZero=%v uZero=%v chainDiff=%v hrel=%d trel=%d nrel=%d shape=%d", c.tZero, c.uZero, c.chainDiff, c.hrel, c.trel, c.nrel, c.shape)
}

// build makes the concrete pair for a class with tape-chosen concrete values.
func (c c01case) build(s *core.Sim, drift time.Duration) (t, u *H) {
	now := time.Now()
	var ut time.Time
	switch c.nrel {
	case 0:
		ut = now.Add(-time.Duration(1+s.Tape.Draw("past-s", 100000)) * time.Second)
	case 1:
		ut = now.Add(drift)
	case 2:
		ut = now.Add(drift + 1)
	case 3:
		ut = now.Add(drift + time.Duration(1+s.Tape.Draw("future-s", 1000000))*time.Second)
	}
	var tt time.Time
	switch c.trel {
	case 0:
		tt = ut.Add(time.Duration(1+s.Tape.Draw("dt", 1000)) * time.Nanosecond)
	case 1:
		tt = ut
	case 2:
		tt = ut.Add(-time.Duration(1+s.Tape.Draw("dt", 1000000)) * time.Microsecond)
	}
	th := uint64(2 + s.Tape.Draw("t-height", 1000))
	var uh uint64
	switch c.hrel {
	case 0:
		uh = th - 1 - uint64(s.Tape.Draw("dh", int(th-1)))
		if uh == 0 {
			uh = 1
		}
	case 1:
		uh = th
	case 2:
		uh = th + 1
	case 3:
		uh = th + 2 + uint64(s.Tape.Draw("dh", 5000))
	case 4:
		uh = th + 1<<63
	}
	t = (&H{Chain: "c01", Ht: th, T: tt.UnixNano(), Prev: make([]byte, 32), Epoch: th}).Sign()
	chain := "c01"
	if c.chainDiff {
		chain = core.Pick(s.Tape, "other-chain", []string{"c01-other", "C01", "", "c02"})
	}
	prev := []byte(t.Hash())
	if s.Tape.Coin("break-link", 1, 4) {
		prev = make([]byte, 32)
	}
	u = &H{Chain: chain, Ht: uh, T: ut.UnixNano(), Prev: prev, Epoch: uh, Shape: c.shape}
	if s.Tape.Coin("forge", 1, 4) {
		u.Sig = [8]byte{1, 2, 3}
	} else {
		u.Sign()
	}
	if c.tZero {
		t = nil
	}
	if c.uZero {
		u = nil
	}
	return t, u
}

// checkVerify compares header.Verify with the model for one pair.
func checkVerify(s *core.Sim, drift time.Duration, t, u *H, desc string) {
	now := time.Now()
	want := simhdr.ModelVerify(now, drift, t, u)
	err, pv := safeVerify(t, u)
	if pv != nil {
		s.Violate("panic", map[string]string{"op": "Verify"}, "%s: t=%v u=%v: Verify panicked: %v", desc, t, u, pv)
		return
	}
	at := func(k string) map[string]string { return map[string]string{"kind": k} }
	if want.OK {
		if err != nil {
			s.Violate("verify-rejected-valid", nil, "%s: t=%v u=%v: Verify returned %v, the statement accepts", desc, t, u, err)
		}
		return
	}
	if err == nil {
		kind := "type"
		if len(want.Mandatory) > 0 {
			kind = want.Mandatory[0].Error()
		}
		s.Violate("verify-accepted-invalid", at(kind), "%s: t=%v u=%v (now=%v): Verify returned nil; violated: %v typeErr=%v", desc, t, u, now.UTC().Format(time.RFC3339Nano), want.Mandatory, want.TypeErr)
		return
	}
	ve, ok := err.(*header.VerifyError)
	if !ok {
		s.Violate("not-a-verifyerror", nil, "%s: Verify returned %T (%v), not a bare *VerifyError", desc, err, err)
		return
	}
	if len(want.Mandatory) > 0 {
		hit := false
		for _, m := range want.Mandatory {
			if errors.Is(err, m) {
				hit = true
			}
		}
		if !hit {
			s.Violate("wrong-sentinel", nil, "%s: t=%v u=%v: error %v does not wrap any of the violated conditions %v", desc, t, u, err, want.Mandatory)
		}
		if ve.SoftFailure {
			s.Violate("soft-on-mandatory", nil, "%s: t=%v u=%v: a failed mandatory check (%v) is reported as SoftFailure", desc, t, u, err)
		}
		return
	}
	if !errors.Is(err, simhdr.ErrType) {
		s.Violate("type-error-not-wrapped", nil, "%s: the header type rejected but the error %v does not wrap the type's own error", desc, err)
	}
	if ve.SoftFailure != want.Soft {
		s.Violate("soft-mismatch", map[string]string{"want": fmt.Sprint(want.Soft)}, "%s: t=%v u=%v shape=%d: SoftFailure=%v, want %v (adjacent=%v)", desc, t, u, u.Shape, ve.SoftFailure, want.Soft, u.Ht == t.Ht+1)
	}
}

func runC01(s *core.Sim, tier string) RunInfo {
	simhdr.Reset()
	simhdr.Cfg.TrustRange = uint64(core.Pick(s.Tape, "trust-range", []int{0, 1, 3, 50, 1 << 40}))
	ch := simhdr.NewChain("c01", 1, time.Now().Add(-100*time.Hour), time.Second)
	evals := 0
	drift, ok := calibrateDrift(s, ch, 5)
	if !ok {
		return RunInfo{Evals: 1, Sample: "calibration failed"}
	}
	// the boundary must not depend on the pair or on the clock value
	time.Sleep(time.Duration(1+s.Tape.Draw("jump", 1<<30)) * time.Microsecond)
	if d2, ok := calibrateDrift(s, ch, uint64(7+s.Tape.Draw("pair", 50))); ok && d2 != drift {
		s.Violate("drift-not-constant", nil, "drift allowance %v for one pair/clock, %v for another", drift, d2)
	}
	var sample []string
	// the complete categorical product, concrete values from the tape
	for _, tz := range []bool{false, true} {
		for _, uz := range []bool{false, true} {
			for _, cd := range []bool{false, true} {
				for hrel := 0; hrel < 5; hrel++ {
					for trel := 0; trel < 3; trel++ {
						for nrel := 0; nrel < 4; nrel++ {
							for sh := simhdr.Shape(0); sh < simhdr.NumShapes; sh++ {
								if s.Failed() {
									return RunInfo{Evals: evals, Sample: sample}
								}
								c := c01case{tz, uz, cd, hrel, trel, nrel, sh}
								if s.Tape.Coin("clock-jump", 1, 50) {
									time.Sleep(time.Duration(1+s.Tape.Draw("jump", 1<<20)) * time.Millisecond)
								}
								t, u := c.build(s, drift)
								checkVerify(s, drift, t, u, c.String())
								evals++
								if len(sample) < 3 && evals%997 == 0 {
									sample = append(sample, fmt.Sprintf("%s: t=%v u=%v", c, t, u))
								}
							}
						}
					}
				}
			}
		}
	}
	// a type that rejects with one shared *VerifyError value (a sentinel): first a header far ahead,
	// then an adjacent one - what Verify made of the first rejection must not stick to the value
	for _, hrel := range []int{3, 2, 3, 2} {
		c := c01case{false, false, false, hrel, 2, 0, simhdr.ShapeSharedHard}
		t, u := c.build(s, drift)
		checkVerify(s, drift, t, u, "shared rejection value, "+c.String())
		evals++
	}
	// the same header flips from "from the future" to acceptable as the clock advances
	t := ch.At(20)
	u := simhdr.Retime(ch.At(21), time.Now().Add(drift+time.Duration(1+s.Tape.Draw("ahead", 1<<30))))
	checkVerify(s, drift, t, u, "future header before the clock catches up")
	time.Sleep(time.Until(u.Time().Add(-drift)))
	checkVerify(s, drift, t, u, "same header once now+drift reaches its time")
	evals += 2
	return RunInfo{Nontrivial: true, StateKey: fmt.Sprint(drift, simhdr.Cfg.TrustRange, s.Tape.Seed()), Evals: evals,
		Sample: map[string]any{"calibrated_drift": drift.String(), "class_product_complete": true, "classes": evals - 2, "examples": sample}}
}

// --- C02 -----------------------------------------------------------------------------

func runC02(s *core.Sim, tier string) RunInfo {
	simhdr.Reset()
	simhdr.Cfg.TrustRange = uint64(core.Pick(s.Tape, "trust-range", []int{0, 1, 3, 50, 1 << 40}))
	ch := simhdr.NewChain("c02", 1, time.Now().Add(-100*time.Hour), time.Second)
	drift, ok := calibrateDrift(s, ch, 5)
	if !ok {
		return RunInfo{Evals: 1}
	}
	evals := 0
	var sample []any
	ncases := 150
	for i := 0; i < ncases && !s.Failed(); i++ {
		if s.Tape.Coin("clock-jump", 1, 20) {
			time.Sleep(time.Duration(1+s.Tape.Draw("jump", 1<<20)) * time.Millisecond)
		}
		base := uint64(2 + s.Tape.Draw("base", 100))
		trusted := ch.At(base)
		start := base + 1
		if s.Tape.Coin("non-adjacent-start", 1, 3) {
			start = base + 2 + uint64(s.Tape.Draw("skip", 60))
		}
		n := s.Tape.Draw("len", 41)
		in := make([]*H, n)
		for j := range in {
			in[j] = ch.At(start + uint64(j))
		}
		var defects []string
		nd := s.Tape.Draw("defects", 3)
		if n == 0 {
			nd = 0
		}
		for d := 0; d < nd; d++ {
			pos := s.Tape.Draw("pos", n)
			if in[pos] == nil {
				continue
			}
			kind := core.Pick(s.Tape, "defect", []string{"gap", "duplicate", "swap", "zero", "wrong-chain", "stale", "time-back", "future", "soft", "hard", "forged", "fork"})
			defects = append(defects, fmt.Sprintf("%s@%d", kind, pos))
			switch kind {
			case "gap":
				in = append(in[:pos], in[min(pos+1, len(in)):]...)
				if pos < len(in) {
					// keep length varied: gap = element removed
				}
				n = len(in)
				if n == 0 {
					d = nd
				}
			case "duplicate":
				in = append(in[:pos+1], in[pos:]...)
				n = len(in)
			case "swap":
				if pos+1 < n {
					in[pos], in[pos+1] = in[pos+1], in[pos]
				}
			case "zero":
				in[pos] = nil
			case "wrong-chain":
				in[pos] = simhdr.WrongChain(in[pos])
			case "stale":
				in[pos] = ch.At(base - uint64(s.Tape.Draw("stale", int(base))))
			case "time-back":
				if in[pos] != nil {
					in[pos] = simhdr.Retime(in[pos], trusted.Time().Add(-time.Hour))
				}
			case "future":
				if in[pos] != nil {
					in[pos] = simhdr.Retime(in[pos], time.Now().Add(drift+time.Duration(1+s.Tape.Draw("ahead", 1<<30))))
				}
			case "soft", "hard":
				if in[pos] != nil {
					c := simhdr.Clone(in[pos])
					c.Shape = simhdr.ShapeBareSoft
					if kind == "hard" {
						c.Shape = simhdr.ShapeWrappedHard
					}
					in[pos] = c.Sign()
				}
			case "forged":
				if in[pos] != nil {
					in[pos] = simhdr.ForgeSig(in[pos], uint64(i))
				}
			case "fork":
				if in[pos] != nil {
					in[pos] = simhdr.Fork(in[pos], uint64(i))
				}
			}
		}
		// --- model: the verified, height-adjacent prefix
		now := time.Now()
		want := 0
		tr := trusted
		for j, u := range in {
			if !simhdr.Passes(now, drift, tr, u) {
				break
			}
			if j > 0 && u.Ht != tr.Ht+1 {
				break
			}
			want++
			tr = u
		}
		out, err, pv := safeVerifyRange(trusted, in)
		evals++
		if pv != nil {
			s.Violate("panic", map[string]string{"op": "VerifyRange"}, "trusted=%d start=%d defects=%v: VerifyRange panicked: %v", base, start, defects, pv)
			continue
		}
		desc := fmt.Sprintf("trusted=%d start=%d len=%d defects=%v", base, start, len(in), defects)
		if len(sample) < 3 && len(defects) > 0 && i%17 == 0 {
			sample = append(sample, map[string]any{"case": desc, "verified_prefix": want})
		}
		at := map[string]string{}
		if len(out) > len(in) {
			s.Violate("not-a-prefix", at, "%s: returned %d headers for %d inputs", desc, len(out), len(in))
			continue
		}
		for j := range out {
			if out[j] != in[j] {
				s.Violate("not-a-prefix", at, "%s: result[%d]=%v is not input[%d]=%v", desc, j, out[j], j, in[j])
			}
		}
		if len(out) != want {
			kind := "too-long"
			if len(out) < want {
				kind = "too-short"
			}
			s.Violate("wrong-prefix-length", map[string]string{"kind": kind}, "%s: returned a prefix of %d, the verified adjacent prefix has %d (err=%v)", desc, len(out), want, err)
			continue
		}
		if (err == nil) != (len(in) > 0 && want == len(in)) {
			s.Violate("error-mismatch", map[string]string{"nil": fmt.Sprint(err == nil)}, "%s: err=%v but verified prefix is %d of %d", desc, err, want, len(in))
			continue
		}
		if err != nil {
			if _, ok := err.(*header.VerifyError); !ok {
				s.Violate("not-a-verifyerror", nil, "%s: VerifyRange returned %T (%v)", desc, err, err)
			}
		}
	}
	return RunInfo{Nontrivial: true, StateKey: fmt.Sprint(s.Tape.Seed()), Evals: evals, Sample: sample}
}

func safeVerify(t, u *H) (err error, panicked any) {
	defer func() { panicked = recover() }()
	return header.Verify(t, u), nil
}

func safeVerifyRange(t *H, in []*H) (out []*H, err error, panicked any) {
	defer func() { panicked = recover() }()
	out, err = header.VerifyRange(t, in)
	return out, err, nil
}
