package props

import (
	"context"
	"errors"
	"fmt"
	"math/bits"
	"time"

	header "github.com/celestiaorg/go-header"
	"github.com/celestiaorg/go-header/store"
	hsync "github.com/celestiaorg/go-header/sync"

	"verifsim/core"
	"verifsim/simhdr"
)

// C15 - Bifurcation accepts a soft-failing head iff a verifiable path exists; terminates.
func init() {
	register(&Scenario{ID: "C15", World: "Y", Hooks: true, Run: runC15})
}

func runC15(s *core.Sim, tier string) RunInfo {
	simhdr.Reset()
	space := 3 * time.Second
	age := uint64(10 + s.Tape.Draw("age", 40))
	w := newYW(s, 1, age, space)
	// trust predicate: range and (non-monotone) bad epochs
	simhdr.Cfg.TrustRange = uint64(core.Pick(s.Tape, "trust-range", []int{0, 1, 2, 3, 7, 64, 1 << 40}))
	var hist []string
	rounds := 0
	info := func() RunInfo {
		return RunInfo{Nontrivial: rounds > 0, StateKey: fmt.Sprint(hist), Evals: 1 + rounds,
			Sample: map[string]any{"trust_range": simhdr.Cfg.TrustRange, "bad_epochs": len(simhdr.Cfg.BadEpoch), "rounds": hist}}
	}
	defer w.teardown()
	w.configureDisk()
	if err := w.OpenStore(store.Parameters{WriteBatchSize: core.Pick(s.Tape, "batch", sizeKnob), StoreCacheSize: 64, IndexCacheSize: 64}); err != nil {
		s.Aborted = "store start: " + err.Error()
		return info()
	}
	tailH := age - uint64(1+s.Tape.Draw("depth", 8))
	if err := w.NewSyncer(hsync.WithBlockTime(space), hsync.WithTrustingPeriod(100000*time.Hour), hsync.WithRecencyThreshold(100000*time.Hour),
		hsync.WithSyncFromHeight(tailH), hsync.WithPruningWindow(200000*time.Hour)); err != nil {
		s.Aborted = "NewSyncer: " + err.Error()
		return info()
	}
	var startErr error
	if _, fin := s.Do("syncer-start", 30*time.Minute, func() { startErr = w.StartSyncer(29 * time.Minute) }); !fin || startErr != nil {
		s.Violate("start-error", nil, "Syncer.Start: finished=%v err=%v (trust range %d)", fin, startErr, simhdr.Cfg.TrustRange)
		return info()
	}
	s.Quiesce(time.Second)
	ctx := context.Background()
	localHead := func() (h *H) {
		t := s.Go("local-head", func() { h, _ = w.Sy.Head(ctx) })
		s.Settle(time.Minute, t)
		return h
	}
	nr := 1 + s.Tape.Draw("rounds", 4)
	for r := 0; r < nr && !s.Failed(); r++ {
		subj := localHead()
		if subj == nil || !w.Ch.Is(subj) {
			s.Violate("unverified-subjective-head", nil, "Syncer.Head()=%v is not an honest header", subj)
			break
		}
		S := subj.Height()
		D := uint64(core.Pick(s.Tape, "distance", []int{2, 3, 4, 5, 7, 8, 9, 16, 33, 100, 257, 1000, 4096}))
		if tier != "thorough" && D > 300 && !s.Tape.Coin("allow-far", 1, 4) {
			D = 2 + uint64(s.Tape.Draw("d", 60))
		}
		// move the chain on until S+D exists
		if nh := w.NetHead(); nh < S+D {
			s.Sleep(time.Duration(S+D-nh) * space)
		}
		// bad epochs in (S, S+D]
		simhdr.Cfg.BadEpoch = map[uint64]bool{}
		for i, n := 0, s.Tape.Draw("bad-epochs", 4); i < n; i++ {
			simhdr.Cfg.BadEpoch[S+1+uint64(s.Tape.Draw("bad-epoch", int(D)))] = true
		}
		honest := w.Ch.At(S + D)
		kind := core.Pick(s.Tape, "candidate", []string{"honest", "honest", "forged-sig", "fork", "wrong-chain"})
		cand := honest
		switch kind {
		case "forged-sig":
			cand = simhdr.ForgeSig(honest, uint64(r))
		case "fork":
			// a validly signed fork passes any non-adjacent verification by
			// definition (outside the property); it is only "unverifiable" when
			// no skipping verification towards it can ever succeed
			if simhdr.Cfg.TrustRange == 0 || simhdr.Cfg.BadEpoch[honest.Epoch] {
				cand = simhdr.Fork(honest, uint64(r))
			} else {
				kind = "honest"
			}
		case "wrong-chain":
			cand = simhdr.WrongChain(honest)
		}
		direct := simhdr.TrustPath(subj.Epoch, honest.Epoch) || D == 1
		// getter failure at the j-th GetByHeight of this round (0 = none)
		failAt := 0
		if s.Tape.Coin("getter-fails", 1, 3) {
			failAt = 1 + s.Tape.Draw("fail-at", 12)
		}
		calls0 := w.G.Count("GetByHeight")
		hit := false
		notFound := s.Tape.Coin("fail-with-notfound", 1, 2)
		w.G.ByHeightFault = func(n int, h uint64) error {
			if failAt > 0 && n-calls0 == failAt {
				hit = true
				if notFound {
					// what an exchange or a store answers for a height it does not have
					return fmt.Errorf("getter: %w", header.ErrNotFound)
				}
				return errors.New("getter: injected failure")
			}
			return nil
		}
		bound := int(D)*(bits.Len64(D)+2) + 2
		// (virtual time is free: the request bound is what limits the search, the time budget
		// only has to be generous; every promoted intermediate is also appended to the Store)
		budget := time.Duration(bound+10)*time.Millisecond*20 + time.Minute
		if need := s.Steps + 12*bound; need > s.MaxSteps {
			s.MaxSteps = need
		}
		if w.Disk.Park {
			// every promoted intermediate is appended to a Store whose disk stalls now and then:
			// virtual time is free, the request bound is what limits the search
			budget += time.Duration(bound+10) * 3 * time.Second
		}
		// sometimes another candidate is delivered at the same time: a forged header just below the
		// judged one, whose own search (over heights below it) is refused in the end. Deliveries are
		// taken one after the other; the judged candidate is owed its verdict all the same
		var distractor *core.Task
		if failAt == 0 && D >= 3 && s.Tape.Coin("concurrent-candidate", 1, 3) {
			forged := simhdr.ForgeSig(w.Ch.At(S+D-1), uint64(100+r))
			distractor = s.Go("candidate-concurrent-forged", func() {
				c, cancel := context.WithTimeout(ctx, budget)
				defer cancel()
				_ = w.Sub.Deliver(c, forged)
			})
			budget *= 2
			s.Probe("concurrent-candidate")
		}
		var err error
		t, fin := s.Do(fmt.Sprintf("candidate-%s", kind), budget, func() {
			c, cancel := context.WithTimeout(ctx, budget)
			defer cancel()
			err = w.Sub.Deliver(c, cand)
		})
		if distractor != nil {
			if stuck := s.Settle(budget, distractor); len(stuck) > 0 && fin {
				s.Violate("bifurcation-did-not-terminate", map[string]string{"candidate": "concurrent-forged"}, "the concurrently delivered forged candidate at distance %d: the verifier did not return within %v", D-1, budget)
				break
			}
			bound *= 2
		}
		rounds++
		calls := w.G.Count("GetByHeight") - calls0
		hist = append(hist, fmt.Sprintf("S=%d D=%d %s direct=%v failAt=%d hit=%v -> err=%v calls=%d", S, D, kind, direct, failAt, hit, err != nil, calls))
		at := map[string]string{"candidate": kind}
		if t.Panic != nil {
			s.Violate("panic", map[string]string{"op": "verifier"}, "verifier panicked: %v\n%s", t.Panic, t.Stack)
			break
		}
		if !fin {
			s.Violate("bifurcation-did-not-terminate", at, "candidate at distance %d (trust range %d): the verifier did not return within %v (%d getter requests so far)", D, simhdr.Cfg.TrustRange, budget, calls)
			break
		}
		if calls > bound {
			s.Violate("bifurcation-too-many-requests", at, "distance %d: %d GetByHeight requests, bound %d", D, calls, bound)
		}
		switch {
		case kind == "honest" && !hit:
			if err != nil {
				s.Violate("verifiable-head-refused", at, "honest candidate %v at distance %d from subjective head %d (trust range %d, bad epochs %v, direct=%v) refused: %v [%v]", cand, D, S, simhdr.Cfg.TrustRange, simhdr.Cfg.BadEpoch, direct, err, hist)
				break
			}
			if lh := localHead(); lh == nil || lh.Height() != cand.Height() || !simhdr.Equal(lh, cand) {
				s.Violate("accepted-head-not-adopted", at, "candidate %v accepted but Syncer.Head()=%v", cand, lh)
			}
			s.Probe("accepted-" + map[bool]string{true: "directly", false: "via-bifurcation"}[direct])
		case kind == "honest" && hit:
			if err == nil {
				s.Violate("accepted-despite-getter-failure", at, "an intermediate could not be fetched (request %d failed) but the candidate was accepted", failAt)
			}
			s.Probe("refused-getter-failure")
		default:
			if err == nil {
				s.Violate("unverifiable-head-accepted", at, "%s candidate %v at distance %d accepted (trust range %d)", kind, cand, D, simhdr.Cfg.TrustRange)
				break
			}
			if lh := localHead(); lh != nil && (simhdr.Equal(lh, cand) || !w.Ch.Is(lh)) {
				s.Violate("unverified-subjective-head", at, "after refusing the %s candidate Syncer.Head()=%v", kind, lh)
			}
			s.Probe("refused-" + kind)
		}
		w.G.ByHeightFault = nil
		if s.Failed() {
			break
		}
		// let the triggered sync finish, then the storage oracle
		s.Quiesce(time.Second)
		t2 := s.Go("sync-wait", func() {
			c, cancel := context.WithTimeout(ctx, 30*time.Minute)
			defer cancel()
			_ = w.Sy.SyncWait(c)
		})
		s.Settle(31*time.Minute, t2)
		w.waitSyncIdle(30 * time.Minute)
		w.checkStoreIsHonestChain(fmt.Sprintf("after round %d", r), true)
	}
	return info()
}
