package props

import (
	"context"
	"fmt"
	"reflect"
	"sort"
	"strings"
	"time"

	"verifsim/core"
)

// C08 - DeleteRange removes exactly the requested end of the chain, permanently.
func init() {
	register(&Scenario{ID: "C08", World: "S", Run: runC08})
}

// buildStore fills a fresh store with a chain (possibly plus an island above a
// gap) in tape-chosen chunk sizes, leaving a tape-chosen mix of flushed and
// unflushed headers.
func buildStore(s *core.Sim, w *SW, hist *[]string) bool {
	m := w.M
	n := 2 + s.Tape.Draw("build-appends", 6)
	for i := 0; i < n && !s.Failed(); i++ {
		from, to, kind := genAppend(s, w, m)
		if kind == "gap-above" && !s.Tape.Coin("allow-island", 1, 4) {
			from, to = m.Head+1, m.Head+1+(to-from)
			kind = "head+1"
		}
		*hist = append(*hist, fmt.Sprintf("append %d..%d (%s)", from, to, kind))
		if err := w.Append(w.Ch.Range(from, to)...); err != nil {
			s.Violate("append-error", nil, "Append(%d..%d): %v", from, to, err)
			return false
		}
		m.Append(from, to)
	}
	if s.Tape.Coin("build-restart", 1, 5) {
		*hist = append(*hist, "restart (flushes everything)")
		if err := w.Stop(); err != nil {
			s.Violate("stop-error", nil, "Stop: %v", err)
			return false
		}
		if err := w.Open(); err != nil {
			s.Violate("start-error", nil, "Start: %v", err)
			return false
		}
	}
	if err := w.Sync(); err != nil {
		s.Violate("sync-error", nil, "Sync: %v", err)
		return false
	}
	return !s.Failed()
}

// unflushed counts model headers that are not on the raw disk yet.
func (w *SW) unflushed() (n int) {
	for _, h := range w.M.Heights() {
		if w.where(h) == "not-on-disk" {
			n++
		}
	}
	return n
}

func gridRange(s *core.Sim, m *StoreModel) (from, to uint64) {
	mid := (m.Tail + m.Head) / 2
	grid := []uint64{0, m.Tail - 1, m.Tail, m.Tail + 1, mid, m.Head - 1, m.Head, m.Head + 1, m.Head + 2, ^uint64(0)}
	return core.Pick(s.Tape, "del-from", grid), core.Pick(s.Tape, "del-to", grid)
}

func runC08(s *core.Sim, tier string) RunInfo {
	w := newSW(s, false)
	w.Disk.Park = s.Tape.Coin("park", 1, 3)
	m := w.M
	var hist []string
	dels, faults := 0, 0
	info := func() RunInfo {
		return RunInfo{Nontrivial: dels > 0, StateKey: w.cfg() + "|" + m.String() + fmt.Sprint(hist), Evals: 1 + dels,
			Sample: map[string]any{"config": w.cfg(), "history": hist, "final_model": m.String()}}
	}
	if err := w.Open(); err != nil {
		s.Violate("start-error", nil, "Start on empty disk: %v", err)
		return info()
	}
	defer func() {
		w.S.Go("final-stop", func() { _ = w.St.Stop(ctxBG()) })
		w.S.Quiesce(0)
	}()
	if !buildStore(s, w, &hist) {
		return info()
	}
	injectFaults := s.Tape.Coin("fault-mode", 1, 3)
	// (also under expiring deadlines: the parallel workers then stop at different heights and
	// whatever they removed above the lowest failed height is gone - holes inside the range
	// are allowed until the retry, everything the statement says about a part-way failure is not)
	w.lowerParallelThreshold()
	rounds := 1 + s.Tape.Draw("rounds", 4)
	for r := 0; r < rounds && !s.Failed(); r++ {
		if m.Empty() {
			from, to, _ := genAppend(s, w, m)
			hist = append(hist, fmt.Sprintf("append %d..%d (re-init)", from, to))
			if err := w.Append(w.Ch.Range(from, to)...); err != nil {
				s.Violate("append-error", nil, "Append: %v", err)
				break
			}
			m.Append(from, to)
			continue
		}
		// sometimes headers are appended right before the DeleteRange call, by the same
		// caller and without waiting: Append has returned, but the headers may still sit
		// in the store's write queue when DeleteRange validates its range
		var pre []*H
		if !m.Empty() && s.Tape.Coin("append-just-before", 1, 4) {
			a := m.Head + 1
			b := a + uint64(s.Tape.Draw("pre-n", 4))
			pre = w.Ch.Range(a, b)
			m.Append(a, b)
			hist = append(hist, fmt.Sprintf("append %d..%d immediately followed by:", a, b))
			s.Probe("delete-right-after-append")
		}
		var from, to uint64
		if s.Tape.Coin("grid", 1, 2) {
			from, to = gridRange(s, m)
		} else {
			from, to = genDelete(s, m, true)
		}
		ok := m.DeleteOK(from, to)
		unfl := w.unflushed()
		if unfl > 0 {
			s.Probe("delete-with-unflushed")
		}
		// DeleteRange starts with a Sync, which writes out the pending batch: take
		// the "before" image after an explicit Sync so that only the deletion counts
		if err := w.Sync(); err != nil {
			s.Violate("sync-error", nil, "Sync: %v", err)
			break
		}
		before := w.Disk.Snapshot()
		beforeModel := m.Clone()
		// --- optional part-way failure: the caller's deadline expires inside the
		// deletion. Every datastore op costs 1ms of virtual time and the deadline
		// is placed by the tape anywhere between "before Sync" and "after the end".
		faulted := false
		timeout := time.Duration(0)
		if injectFaults && ok {
			span := int(to-from)*3 + 6
			timeout = time.Duration(1+s.Tape.Draw("deadline-ms", span)) * time.Millisecond // (never 0: a context that is done on entry makes Go's select pick at random between it and a ready channel)
			w.Disk.Latency = func(op string) time.Duration { return time.Millisecond }
		}
		hist = append(hist, fmt.Sprintf("delete [%d,%d) accept=%v unflushed=%d deadline=%v", from, to, ok, unfl, timeout))
		var err error
		if pre != nil {
			w.do(fmt.Sprintf("append+delete [%d,%d)", from, to), func() {
				if aerr := w.St.Append(ctxBG(), pre...); aerr != nil {
					s.Violate("append-error", nil, "Append: %v", aerr)
					return
				}
				ctx := ctxBG()
				if timeout > 0 {
					var cancel context.CancelFunc
					ctx, cancel = context.WithTimeout(ctx, timeout)
					defer cancel()
				}
				err = w.St.DeleteRange(ctx, from, to)
			})
			if err != nil && timeout > 0 {
				faulted = true
				s.Fault("deadline-inside-delete")
			}
		} else if timeout > 0 || (injectFaults && ok) {
			w.do(fmt.Sprintf("delete [%d,%d) deadline %v", from, to, timeout), func() {
				ctx, cancel := context.WithTimeout(ctxBG(), timeout)
				defer cancel()
				err = w.St.DeleteRange(ctx, from, to)
			})
			if err != nil {
				faulted = true
				s.Fault("deadline-inside-delete")
			}
		} else {
			err = w.Delete(from, to)
		}
		w.Disk.Latency = nil
		if pre != nil || injectFaults {
			// the deadline may have ended the call while appended headers were still queued or
			// being flushed (1ms per datastore op): let the store finish before looking at it
			if serr := w.Sync(); serr != nil {
				s.Violate("sync-error", nil, "Sync: %v", serr)
				break
			}
		}
		dels++
		if s.Failed() {
			break
		}
		switch {
		case !ok:
			if err == nil {
				s.Violate("delete-accepted", map[string]string{"range": classifyRange(beforeModel, from, to)}, "DeleteRange(%d,%d) on %s returned nil", from, to, beforeModel.String())
				break
			}
			s.Probe("delete-rejected-" + classifyRange(beforeModel, from, to))
			if after := w.Disk.Snapshot(); pre == nil && !reflect.DeepEqual(before, after) {
				s.Violate("rejected-delete-had-effect", nil, "DeleteRange(%d,%d) was rejected (%v) but changed the datastore: %s", from, to, err, diffSnap(before, after))
			}
			w.checkStore(m, fmt.Sprintf("after rejected delete [%d,%d)", from, to))
		case err == nil:
			if faulted {
				s.Probe("fault-swallowed")
			}
			m.Delete(from, to)
			s.Probe("delete-ok-" + classifyRange(beforeModel, from, to))
			w.checkStore(m, fmt.Sprintf("after delete [%d,%d)", from, to))
		case !faulted:
			s.Violate("delete-rejected", map[string]string{"range": classifyRange(beforeModel, from, to)}, "DeleteRange(%d,%d) on %s: %v", from, to, beforeModel.String(), err)
		default:
			// part-way failure (injected): headers outside the range untouched,
			// Tail<=Head resolve to stored headers, a tail-side retry completes.
			faults++
			hist = append(hist, fmt.Sprintf("  -> failed part-way: %.80s", err.Error()))
			w.checkPartial(beforeModel, from, to)
			if s.Failed() {
				break
			}
			if from == beforeModel.Tail {
				hist = append(hist, "  retry")
				ok := w.retryTailDelete(beforeModel, from, to)
				if s.Failed() {
					break
				}
				if ok {
					m.Delete(from, to)
					w.checkStore(m, fmt.Sprintf("after retried delete [%d,%d)", from, to))
				}
			} else {
				// head-side partial failure: which headers inside the range
				// survive is unspecified; take that part of the model from the
				// store (outside the range the model stays authoritative).
				s.Probe("partial-head-side")
				w.resyncRange(m, from, to)
				if !s.Failed() {
					w.checkStore(m, fmt.Sprintf("after part-way head-side delete [%d,%d)", from, to))
				}
			}
		}
		if s.Failed() {
			break
		}
		// continuation: appends (also of deleted heights), sync, restart
		for c := s.Tape.Draw("cont", 4); c > 0 && !s.Failed(); c-- {
			switch core.Pick(s.Tape, "cont-op", []string{"append", "reappend", "restart", "crash", "check"}) {
			case "append":
				if m.Empty() {
					continue
				}
				a, b, kind := genAppend(s, w, m)
				hist = append(hist, fmt.Sprintf("append %d..%d (%s)", a, b, kind))
				if err := w.Append(w.Ch.Range(a, b)...); err != nil {
					s.Violate("append-error", nil, "Append: %v", err)
					break
				}
				m.Append(a, b)
			case "reappend":
				if !ok || m.Empty() {
					continue
				}
				// re-append (part of) the deleted range next to the chain it was cut from
				var a, b uint64
				if from == beforeModel.Tail {
					a, b = to-1, to-1 // just below the new tail
					if a < from {
						continue
					}
				} else {
					a, b = from, from // just above the new head
				}
				if m.Has[a] || a < w.Ch.First {
					continue
				}
				hist = append(hist, fmt.Sprintf("re-append deleted %d", a))
				if err := w.Append(w.Ch.Range(a, b)...); err != nil {
					s.Violate("append-error", nil, "re-Append(%d): %v", a, err)
					break
				}
				m.Append(a, b)
				s.Probe("reappend-deleted")
			case "crash":
				// the process dies without Stop and a new Store is opened on what the datastore
				// holds. Everything the model knows is synced at this point (the deletion began
				// with a Sync and an explicit one follows every append below), so nothing may
				// be lost or come back: DeleteRange had returned, its effect is permanent.
				if err := w.Sync(); err != nil {
					s.Violate("sync-error", nil, "Sync: %v", err)
					break
				}
				hist = append(hist, "crash + reopen")
				if err := w.CrashReopen(); err != nil {
					s.Violate("start-error", map[string]string{"after": "crash"}, "Start after crash: %v", err)
					break
				}
				s.Fault("crash-after-delete")
			case "restart":
				hist = append(hist, "restart")
				if err := w.Restart(); err != nil {
					s.Violate("start-error", nil, "restart: %v", err)
					break
				}
			case "check":
			}
			if !s.Failed() {
				w.checkStore(m, "continuation")
			}
		}
	}
	_ = faults
	_ = time.Second
	return info()
}

func classifyRange(m *StoreModel, from, to uint64) string {
	switch {
	case from >= to:
		return "from>=to"
	case m.Empty():
		return "empty-store"
	case from == m.Tail && to == m.Head+1:
		return "whole"
	case from == m.Tail && to <= m.Head:
		return "tail-prefix"
	case to == m.Head+1 && from > m.Tail:
		return "head-suffix"
	case from > m.Head || to <= m.Tail:
		return "outside"
	case from < m.Tail:
		return "below-tail"
	case to > m.Head+1:
		return "beyond-head"
	default:
		return "middle"
	}
}

func diffSnap(a, b map[string]string) string {
	var parts []string
	for k := range a {
		if _, ok := b[k]; !ok {
			parts = append(parts, "-"+k)
		} else if a[k] != b[k] {
			parts = append(parts, "~"+k)
		}
	}
	for k := range b {
		if _, ok := a[k]; !ok {
			parts = append(parts, "+"+k)
		}
	}
	sort.Strings(parts)
	out := strings.Join(parts, " ")
	if len(out) > 400 {
		out = out[:400] + "…"
	}
	return out
}
// checkPartial is the oracle for a DeleteRange that failed part-way because of
// an injected datastore error (C08's last clause).
func (w *SW) checkPartial(before *StoreModel, from, to uint64) {
	side := "head"
	if from == before.Tail {
		side = "tail"
	}
	at := map[string]string{"side": side, "flavour": w.Flav}
	w.do("check-partial", func() {
		s, st := w.S, w.St
		ctx := ctxBG()
		head, herr := st.Head(ctx)
		tail, terr := st.Tail(ctx)
		if herr != nil || terr != nil {
			s.Violate("partial-ends-lost", at, "after failed DeleteRange(%d,%d) on %s: Head err=%v Tail err=%v", from, to, before, herr, terr)
			return
		}
		if tail.Height() > head.Height() {
			s.Violate("partial-tail-above-head", at, "after failed DeleteRange(%d,%d): Tail %d > Head %d", from, to, tail.Height(), head.Height())
			return
		}
		for _, e := range []*H{head, tail} {
			g, err := st.GetByHeight(ctx, e.Height())
			g2, err2 := st.Get(ctx, e.Hash())
			if err != nil || err2 != nil || !w.Ch.Is(g) || !w.Ch.Is(g2) {
				s.Violate("partial-end-unresolved", at, "after failed DeleteRange(%d,%d) on %s: end %v does not resolve: byHeight=%v,%v byHash=%v,%v (raw %s)", from, to, before, e, g, err, g2, err2, w.where(e.Height()))
				return
			}
		}
		for _, h := range before.Heights() {
			if h >= from && h < to {
				continue
			}
			g, err := st.GetByHeight(ctx, h)
			if err != nil || !w.Ch.Is(g) {
				s.Violate("partial-outside-touched", at, "after failed DeleteRange(%d,%d) on %s: height %d outside the range: %v,%v (raw %s)", from, to, before, h, g, err, w.where(h))
				return
			}
			if g2, err := st.Get(ctx, g.Hash()); err != nil || !w.Ch.Is(g2) {
				s.Violate("partial-outside-touched", at, "after failed DeleteRange(%d,%d): hash of %d outside the range: %v,%v", from, to, h, g2, err)
				return
			}
		}
		if side == "tail" && (tail.Height() < from || tail.Height() > to) {
			s.Violate("partial-tail-outside-range", at, "after failed tail-side DeleteRange(%d,%d): Tail=%d", from, to, tail.Height())
		}
		if side == "head" && head.Height() != before.Head && head.Height() != from-1 {
			s.Violate("partial-head-inside-range", at, "after failed head-side DeleteRange(%d,%d) on %s: Head=%d", from, to, before, head.Height())
		}
	})
}

// retryTailDelete retries a failed tail-side deletion the way a caller does:
// from the store's current tail up to the same `to`. It must complete.
func (w *SW) retryTailDelete(before *StoreModel, from, to uint64) bool {
	var cur uint64
	w.do("tail", func() {
		t, err := w.St.Tail(ctxBG())
		if err == nil {
			cur = t.Height()
		}
	})
	if cur >= to {
		return true // nothing left to retry
	}
	err := w.Delete(cur, to)
	if err != nil {
		w.S.Violate("partial-retry-failed", map[string]string{"flavour": w.Flav}, "retry DeleteRange(%d,%d) after part-way failure of (%d,%d) on %s: %v", cur, to, from, to, before, err)
		return false
	}
	w.S.Probe("partial-retry-ok")
	return true
}

// resyncRange re-reads which heights of [from,to) are still stored after a
// head-side deletion failed part-way, and what Head is now.
func (w *SW) resyncRange(m *StoreModel, from, to uint64) {
	w.do("resync", func() {
		ctx := ctxBG()
		for h := from; h < to; h++ {
			c, cancel := short(ctx)
			_, err := w.St.GetByHeight(c, h)
			cancel()
			if err != nil {
				delete(m.Has, h)
			}
		}
		if head, err := w.St.Head(ctx); err == nil {
			m.Head = head.Height()
		}
	})
}
