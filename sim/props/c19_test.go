package props

import (
	"context"
	"errors"
	"fmt"
	"time"

	"github.com/celestiaorg/go-header/store"
	hsync "github.com/celestiaorg/go-header/sync"

	"verifsim/core"
	"verifsim/simhdr"
)

// C19 - Syncer.Head is fresh, monotone and never adopts an expired header.
func init() {
	register(&Scenario{ID: "C19", World: "Y", Hooks: true, Run: runC19})
}

func runC19(s *core.Sim, tier string) RunInfo {
	simhdr.Reset()
	simhdr.Cfg.TrustRange = uint64(core.Pick(s.Tape, "trust-range", []int{1 << 40, 1 << 40, 4, 20}))
	space := 3 * time.Second
	age := uint64(10 + s.Tape.Draw("age", 30))
	w := newYW(s, 1, age, space)
	// both thresholds are set explicitly: the oracle uses configured values only
	R := time.Duration(2+s.Tape.Draw("recency-blocks", 5)) * space
	TP := time.Duration(core.Pick(s.Tape, "trusting-min", []int{5, 10, 30, 120})) * time.Minute
	if simhdr.Cfg.TrustRange < 1<<40 && TP > 10*time.Minute {
		// with a short trust range a re-initialisation bifurcates over the whole
		// expired distance: keep that distance (and the run) small
		TP = 10 * time.Minute
	}
	s.SchedDen = core.Pick(s.Tape, "sched-den", []int{1, 2, 4})
	// every expiry of a long trusting period is followed by a sync over that many blocks
	// (2400 per expiry at most), each block a handful of park points
	s.MaxSteps = 1500000
	var hist []string
	groups := 0
	info := func() RunInfo {
		return RunInfo{Nontrivial: groups > 0, StateKey: fmt.Sprint(hist), Evals: 1 + groups,
			Sample: map[string]any{"recency_threshold": R.String(), "trusting_period": TP.String(), "ops": hist}}
	}
	defer w.teardown()
	w.configureDisk()
	if err := w.OpenStore(store.Parameters{WriteBatchSize: core.Pick(s.Tape, "batch", sizeKnob), StoreCacheSize: 64, IndexCacheSize: 64}); err != nil {
		s.Aborted = "store start: " + err.Error()
		return info()
	}
	tailH := age - uint64(1+s.Tape.Draw("depth", 6))
	if err := w.NewSyncer(hsync.WithBlockTime(space), hsync.WithTrustingPeriod(TP), hsync.WithRecencyThreshold(R),
		hsync.WithSyncFromHeight(tailH), hsync.WithPruningWindow(100000*time.Hour)); err != nil {
		s.Aborted = "NewSyncer: " + err.Error()
		return info()
	}
	ctx := context.Background()
	// --- initialisation on an empty store: Head without TrustedHead, adopted only if not expired
	var startErr error
	if _, fin := s.Do("syncer-start", 30*time.Minute, func() { startErr = w.StartSyncer(29 * time.Minute) }); !fin {
		s.Violate("hang", map[string]string{"op": "Start"}, "Start did not return")
		return info()
	}
	calls := w.G.CallsCopy()
	if len(calls) == 0 || calls[0].Op != "Head" || calls[0].Trusted != 0 {
		s.Violate("init-without-trusted-peers", nil, "initialisation on an empty store did not start with an untrusted-head-free Head request: %+v", calls)
		return info()
	}
	if startErr != nil {
		s.Violate("start-error", nil, "Start with a fresh honest head: %v", startErr)
		return info()
	}
	s.Quiesce(time.Second)
	accepted := calls[0].A // subjective head after start: what the trusted peers answered with
	lastReturned := uint64(0)
	settleSync := func() {
		t := s.Go("sync-wait", func() {
			c, cancel := context.WithTimeout(ctx, 10*time.Minute)
			defer cancel()
			_ = w.Sy.SyncWait(c)
		})
		s.Settle(11*time.Minute, t)
		s.Quiesce(time.Second)
	}
	settleSync()
	nops := 4 + s.Tape.Draw("nops", 12)
	for i := 0; i < nops && !s.Failed(); i++ {
		switch core.Pick(s.Tape, "op", []string{"head", "head", "head", "clock-small", "clock-over", "clock-expire", "gossip", "gossip-heads", "halt"}) {
		case "clock-small":
			d := time.Duration(1+s.Tape.Draw("ms", int(R/time.Millisecond)-1)) * time.Millisecond
			hist = append(hist, fmt.Sprintf("clock +%v", d))
			s.Sleep(d)
		case "clock-over":
			d := R + time.Duration(1+s.Tape.Draw("over-ms", 30000))*time.Millisecond
			hist = append(hist, fmt.Sprintf("clock +%v (past recency)", d))
			s.Sleep(d)
		case "clock-expire":
			d := TP + time.Duration(1+s.Tape.Draw("over-s", 600))*time.Second
			hist = append(hist, fmt.Sprintf("clock +%v (past trusting period)", d))
			s.Sleep(d)
		case "halt":
			if w.Halt == 0 {
				w.Halt = w.NetHead()
				hist = append(hist, fmt.Sprintf("chain halts at %d", w.Halt))
			} else {
				hist = append(hist, "chain resumes")
				// resume: shift genesis so that production continues from the halted height
				w.Ch.Genesis = time.Now().Add(-time.Duration(w.Halt-w.Ch.First) * space)
				w.Halt = 0
			}
		case "gossip":
			s.Sleep(space)
			h := w.Ch.At(w.NetHead())
			var err error
			t := s.Go("gossip", func() {
				c, cancel := context.WithTimeout(ctx, 5*time.Minute)
				defer cancel()
				err = w.Sub.Deliver(c, h)
			})
			s.Settle(6*time.Minute, t)
			hist = append(hist, fmt.Sprintf("gossip %d err=%v", h.Height(), err != nil))
			if err == nil && h.Height() > accepted {
				accepted = h.Height()
			}
			settleSync()
		case "gossip-heads":
			// Head() callers asking repeatedly while a freshly gossiped head is being applied by the
			// sync loop (pending -> stored): whatever path serves a call, what one caller is told
			// never goes down, nor below what earlier calls were told
			s.Sleep(time.Duration(1+s.Tape.Draw("new-blocks", 3)) * space)
			h := w.Ch.At(w.NetHead())
			var gerr error
			tasks := []*core.Task{s.Go("gossip", func() {
				c, cancel := context.WithTimeout(ctx, 5*time.Minute)
				defer cancel()
				gerr = w.Sub.Deliver(c, h)
			})}
			nc := 1 + s.Tape.Draw("callers", 3)
			seqs := make([][]uint64, nc)
			for j := 0; j < nc; j++ {
				j := j
				times := 2 + s.Tape.Draw("times", 3)
				tasks = append(tasks, s.Go(fmt.Sprintf("head%d", j), func() {
					c, cancel := context.WithTimeout(ctx, 5*time.Minute)
					defer cancel()
					for k := 0; k < times; k++ {
						x, err := w.Sy.Head(c)
						if err != nil {
							continue
						}
						if !w.Ch.Is(x) {
							s.Violate("head-not-honest", map[string]string{"state": "syncing", "script": "gossip"}, "Head() returned %v", x)
							return
						}
						seqs[j] = append(seqs[j], x.Height())
					}
				}))
			}
			if stuck := s.Settle(11*time.Minute, tasks...); len(stuck) > 0 {
				s.Violate("hang", map[string]string{"op": "Head"}, "Head() racing a gossiped head did not return")
				break
			}
			hist = append(hist, fmt.Sprintf("gossip %d err=%v racing Head() callers %v", h.Height(), gerr != nil, seqs))
			top := lastReturned
			for _, seq := range seqs {
				prev := lastReturned
				for _, x := range seq {
					if x < prev {
						s.Violate("head-went-back", map[string]string{"state": "syncing", "script": "gossip"}, "Head() returned height %d after %d had been returned (callers saw %v while head %d was being applied) [%v]", x, prev, seqs, h.Height(), hist)
						break
					}
					prev = x
				}
				if prev > top {
					top = prev
				}
			}
			s.Probe("heads-racing-gossip")
			lastReturned = top
			if top > accepted {
				accepted = top
			}
			if gerr == nil && h.Height() > accepted {
				accepted = h.Height()
			}
			settleSync()
		case "head":
			groups++
			subj := w.Ch.At(accepted)
			now := time.Now()
			recent := !now.After(subj.Time().Add(R))
			expired := now.After(subj.Time().Add(TP))
			n := 1
			if s.Tape.Coin("group", 1, 2) {
				n = 2 + s.Tape.Draw("group-n", 4)
			}
			script := "fresh"
			if !recent {
				script = core.Pick(s.Tape, "head-script", []string{"fresh", "fresh", "error", "slow", "lower", "expired", "expiring"})
			}
			netHead := w.NetHead()
			w.G.HeadFault = func(k int, trusted *H) (*H, error, bool) {
				switch script {
				case "error":
					return nil, errors.New("trusted peers unreachable"), true
				case "lower":
					if accepted > tailH {
						return w.Ch.At(accepted - 1), nil, true
					}
				case "expiring":
					// slow trusted peers serve a head that is still inside the trusting period when
					// the request is sent but no longer when the answer arrives
					for h := w.NetHead(); h > tailH; h-- {
						x := w.Ch.At(h)
						left := x.Time().Add(TP).Sub(now) // relative to when the request is sent
						if left > 0 && left < 2500*time.Millisecond {
							return x, nil, true
						}
						if left <= 0 {
							break
						}
					}
				case "expired":
					// a head that is itself older than the trusting period
					old := w.Ch.At(tailH)
					if time.Now().After(old.Time().Add(TP)) {
						return old, nil, true
					}
				}
				return nil, nil, false
			}
			if script == "slow" || script == "expiring" {
				w.G.Cost = 3 * time.Second // beyond the syncer's head request timeout
			}
			gate := make(chan struct{})
			w.G.HeadGate = gate
			before := len(w.G.CallsCopy())
			type res struct {
				h   *H
				err error
			}
			// variant: the first caller's request is in flight; some of the callers that joined it
			// give up (their own deadline is short), and more callers arrive after that, while the
			// request is still in flight. They all still share that one request.
			impatient := map[int]bool{}
			late := 0
			farFromExpiry := !now.Add(5 * time.Second).After(subj.Time().Add(TP))
			if !recent && !expired && farFromExpiry && n >= 2 && (script == "fresh" || script == "lower" || script == "error") &&
				s.Tape.Coin("waiter-gives-up", 1, 2) {
				for j, k := 1, 1+s.Tape.Draw("impatient", n-1); j <= k; j++ {
					impatient[j] = true
				}
				late = 1 + s.Tape.Draw("late-callers", 3)
				s.Probe("head-waiter-gave-up-late-callers-joined")
			}
			// variant: the caller that owns the request gives up while others wait for its result: the
			// request dies with it and they share that outcome - nobody starts a request of their own
			leaderGaveUp := false
			if late == 0 && !recent && !expired && farFromExpiry && n >= 2 && (script == "fresh" || script == "lower" || script == "error") &&
				s.Tape.Coin("leader-gives-up", 1, 4) {
				leaderGaveUp = true
				impatient[0] = true
				s.Probe("head-leader-gave-up")
			}
			results := make([]res, n+late)
			var tasks []*core.Task
			startCaller := func(j int) {
				patience := 10 * time.Minute
				if impatient[j] {
					patience = 50 * time.Millisecond
				}
				tasks = append(tasks, s.Go(fmt.Sprintf("head%d", j), func() {
					c, cancel := context.WithTimeout(ctx, patience)
					defer cancel()
					results[j].h, results[j].err = w.Sy.Head(c)
				}))
			}
			if late > 0 || leaderGaveUp {
				startCaller(0)
				s.Quiesce(0) // caller 0 owns the request in flight
				for j := 1; j < n; j++ {
					startCaller(j)
				}
				s.Quiesce(0)
				s.Sleep(200 * time.Millisecond) // the impatient ones give up
				s.Quiesce(0)
				for j := n; j < n+late; j++ {
					startCaller(j)
				}
			} else {
				for j := 0; j < n; j++ {
					startCaller(j)
				}
			}
			// let every caller reach the shared request (or return, if the head is recent), then answer
			s.Quiesce(0)
			close(gate)
			w.G.HeadGate = nil
			if stuck := s.Settle(11*time.Minute, tasks...); len(stuck) > 0 {
				s.Violate("hang", map[string]string{"op": "Head"}, "Syncer.Head() did not return (script %s)", script)
				break
			}
			w.G.Cost = time.Millisecond
			w.G.HeadFault = nil
			var headCalls []GCall
			for _, c := range w.G.CallsCopy()[before:] {
				if c.Op == "Head" {
					headCalls = append(headCalls, c)
				}
			}
			state := "stale"
			if recent {
				state = "recent"
			} else if expired {
				state = "expired"
			}
			hist = append(hist, fmt.Sprintf("Head() x%d (+%d late, %d impatient) subjective=%d %s script=%s -> %d head requests", n, late, len(impatient), accepted, state, script, len(headCalls)))
			at := map[string]string{"state": state, "script": script}
			for j, r := range results {
				if tasks[j].Panic != nil {
					s.Violate("panic", map[string]string{"op": "Head"}, "Head panicked: %v\n%s", tasks[j].Panic, tasks[j].Stack)
				}
				if r.err == nil && r.h != nil {
					if !w.Ch.Is(r.h) {
						s.Violate("head-not-honest", at, "Head() returned %v", r.h)
					}
					if r.h.Height() < lastReturned {
						s.Violate("head-went-back", at, "Head() returned height %d after %d had been returned [%v]", r.h.Height(), lastReturned, hist)
					}
				}
			}
			if s.Failed() {
				break
			}
			switch state {
			case "recent":
				if len(headCalls) != 0 {
					s.Violate("request-despite-recent-head", at, "subjective head %d is recent (age %v <= %v) but %d head requests were made", accepted, now.Sub(subj.Time()), R, len(headCalls))
				}
				for _, r := range results {
					if r.err != nil || r.h.Height() != accepted {
						s.Violate("recent-head-not-returned", at, "recent subjective head %d but Head()=%v,%v", accepted, r.h, r.err)
					}
				}
				s.Probe("head-recent")
			case "stale":
				if len(headCalls) != 1 {
					s.Violate("head-request-count", map[string]string{"state": state, "count": fmt.Sprint(len(headCalls))}, "stale subjective head %d: %d concurrent callers caused %d head requests, want exactly 1 [%v]", accepted, n, len(headCalls), hist)
					break
				}
				if leaderGaveUp {
					break // (whatever the abandoned request came to is what they all got)
				}
				if headCalls[0].Trusted != accepted {
					s.Violate("head-request-not-verified", at, "the head request carried TrustedHead=%d, the subjective head is %d", headCalls[0].Trusted, accepted)
				}
				first := results[0]
				for j, r := range results {
					if impatient[j] {
						continue // gave up on the shared request: whatever honest head it got is fine
					}
					if r.err != nil {
						s.Violate("stale-head-error", at, "a non-expired subjective head exists but Head() failed: %v", r.err)
					} else if first.err == nil && r.h.Height() != first.h.Height() {
						s.Violate("callers-disagree", at, "concurrent callers sharing one request got heights %d and %d", first.h.Height(), r.h.Height())
					}
				}
				if s.Failed() {
					break
				}
				want := accepted
				if script == "fresh" && netHead > accepted {
					want = netHead
				}
				if first.h.Height() < want {
					s.Violate("fresh-head-not-adopted", at, "trusted peers served head %d (verifiable from %d) but Head() returned %d", netHead, accepted, first.h.Height())
				}
				s.Probe("head-stale-" + script)
			case "expired":
				// re-initialisation: request without TrustedHead; adopt only a non-expired head
				if len(headCalls) < 1 || headCalls[0].Trusted != 0 {
					s.Violate("reinit-with-expired-trust", at, "subjective head %d is expired (age %v > %v) but the head requests were %+v", accepted, now.Sub(subj.Time()), TP, headCalls)
					break
				}
				served := w.Ch.At(netHead)
				if script == "expired" {
					served = w.Ch.At(tailH)
				}
				last := headCalls[len(headCalls)-1]
				if last.A != 0 {
					served = w.Ch.At(last.A) // what the trusted peers actually answered with
				}
				// expiry is judged when the answer arrives (the getter's own timestamp of its reply)
				arrival := time.Now().Add(-(s.Now() - last.At))
				servedExpired := arrival.After(served.Time().Add(TP))
				if servedExpired && !now.After(served.Time().Add(TP)) {
					s.Probe("head-expired-in-flight")
				}
				for _, r := range results {
					switch {
					case script == "error":
						if r.err == nil {
							s.Violate("reinit-without-head", at, "trusted peers failed but Head()=%v", r.h)
						}
					case servedExpired:
						if r.err == nil {
							s.Violate("expired-head-adopted", at, "re-initialisation adopted %v which is older than the trusting period %v", r.h, TP)
						}
					case script == "fresh" || script == "lower":
						if r.err != nil && !now.After(served.Time().Add(TP)) && script == "fresh" {
							s.Violate("reinit-failed", at, "trusted peers served the non-expired head %d but Head() failed: %v", served.Height(), r.err)
						}
					}
				}
				s.Probe("head-expired-" + script)
			}
			for _, r := range results {
				if r.err == nil && r.h != nil {
					if r.h.Height() > lastReturned {
						lastReturned = r.h.Height()
					}
					if r.h.Height() > accepted {
						accepted = r.h.Height()
					}
				}
			}
			settleSync()
		}
	}
	if !s.Failed() {
		w.checkStoreIsHonestChain("end", false)
	}
	return info()
}
