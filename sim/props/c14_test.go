package props

import (
	"context"
	"errors"
	"fmt"
	"strings"
	"sync"
	"time"

	header "github.com/celestiaorg/go-header"
	"github.com/ipfs/go-datastore"

	"verifsim/core"
	"verifsim/simdisk"
)

// C14 - OnDelete handlers run once per removed header, before it becomes unreadable.
func init() {
	register(&Scenario{ID: "C14", World: "S", Run: runC14})
}

type hcall struct {
	handler  int
	height   uint64
	readable bool
	byHash   bool
	diskIdx  int // write-log length when the handler ran
	result   string
}

type hscript struct {
	kind string // ok | err | panic | slow
	at   int    // fail at the at-th call (1-based) of this handler within a DeleteRange
	n    int
	// errKind selects what an "err" script fails with (0 = a plain error)
	errKind int
}

func runC14(s *core.Sim, tier string) RunInfo {
	w := newSW(s, false)
	w.Disk.Park = s.Tape.Coin("park", 1, 3)
	w.lowerParallelThreshold()
	m := w.M
	var hist []string
	evals := 0
	info := func() RunInfo {
		return RunInfo{Nontrivial: evals > 0, StateKey: w.cfg() + fmt.Sprint(hist), Evals: 1 + evals,
			Sample: map[string]any{"config": w.cfg(), "history": hist, "final_model": m.String()}}
	}
	if err := w.Open(); err != nil {
		s.Violate("start-error", nil, "Start: %v", err)
		return info()
	}
	defer func() {
		w.S.Go("final-stop", func() { _ = w.St.Stop(ctxBG()) })
		w.S.Quiesce(0)
	}()
	// first disk-delete index per height (hash key or index key)
	firstDel := map[uint64]int{}
	keyHeight := func(k string) (uint64, bool) {
		for _, h := range m.Heights() {
			if k == fmt.Sprintf("%s/%d", w.Prefix, h) || k == w.Prefix+"/"+w.Ch.At(h).Hash().String() {
				return h, true
			}
		}
		return 0, false
	}
	var delMu sync.Mutex // parallel deletion workers commit concurrently
	w.Disk.Observe = func(e simdisk.Entry, idx int) {
		delMu.Lock()
		defer delMu.Unlock()
		for _, op := range e.Ops {
			if !op.Del {
				continue
			}
			if h, ok := keyHeight(op.Key); ok {
				if _, seen := firstDel[h]; !seen {
					firstDel[h] = idx
				}
			}
		}
	}
	nh := 1 + s.Tape.Draw("handlers", 3)
	scripts := make([]*hscript, nh)
	var calls []hcall
	var callsMu sync.Mutex
	register := func() {
		// the handlers are registered by different goroutines at once (components starting up in
		// parallel), each registration being a task of its own
		var regs []*core.Task
		defer func() { s.Settle(time.Minute, regs...) }()
		for i := 0; i < nh; i++ {
			i := i
			regs = append(regs, s.Go(fmt.Sprintf("register-handler-%d", i), func() {
				w.St.OnDelete(func(ctx context.Context, height uint64) error {
					sc := scripts[i]
					callsMu.Lock()
					sc.n++
					callsMu.Unlock()
					c := hcall{handler: i, height: height, diskIdx: w.Disk.LogLen()}
					if g, err := w.St.GetByHeight(ctx, height); err == nil && w.Ch.Is(g) && g.Height() == height {
						c.readable = true
						if g2, err := w.St.Get(ctx, g.Hash()); err == nil && w.Ch.Is(g2) {
							c.byHash = true
						}
					}
					defer func() { callsMu.Lock(); calls = append(calls, c); callsMu.Unlock() }()
					switch {
					case sc.kind == "slow":
						s.YieldAfter("handler-slow", time.Second) // (through the scheduler: parallel workers woken at one instant run in tape order)
						c.result = "ok"
					case sc.kind == "err" && sc.n == sc.at:
						c.result = "err"
						s.Fault("handler-error")
						// whatever a handler may fail with: its own not-found (from a getter, from a
						// datastore), its context, anything
						switch sc.errKind {
						case 1:
							s.Fault("handler-error-header-notfound")
							return fmt.Errorf("handler: looking up my record for %d: %w", height, header.ErrNotFound)
						case 2:
							s.Fault("handler-error-datastore-notfound")
							return fmt.Errorf("handler: looking up my record for %d: %w", height, datastore.ErrNotFound)
						case 3:
							return fmt.Errorf("handler: %w", context.Canceled)
						case 4:
							return fmt.Errorf("handler: %w", context.DeadlineExceeded)
						}
						return errors.New("handler says no")
					case sc.kind == "panic" && sc.n == sc.at:
						c.result = "panic"
						s.Fault("handler-panic")
						panic("handler blew up")
					default:
						c.result = "ok"
					}
					return nil
				})
			}))
		}
	}
	for i := range scripts {
		scripts[i] = &hscript{kind: "ok"}
	}
	register()
	if !buildStore(s, w, &hist) {
		return info()
	}
	if w.opens > 1 {
		register() // buildStore restarted: new Store instance
	}
	rounds := 1 + s.Tape.Draw("rounds", 4)
	for r := 0; r < rounds && !s.Failed(); r++ {
		if m.Empty() {
			// the whole chain was deleted (the store wiped itself): the same Store object, with
			// the handlers registered on it, gets a new chain and goes on deleting
			from, to, _ := genAppend(s, w, m)
			hist = append(hist, fmt.Sprintf("append %d..%d (after the store was emptied)", from, to))
			if err := w.Append(w.Ch.Range(from, to)...); err != nil {
				s.Violate("append-error", nil, "Append: %v", err)
				break
			}
			m.Append(from, to)
			if err := w.Sync(); err != nil {
				s.Violate("sync-error", nil, "Sync: %v", err)
				break
			}
			s.Probe("deleting-again-after-wipe")
		}
		from, to := genDelete(s, m, true)
		if !m.DeleteOK(from, to) {
			continue
		}
		n := int(to - from)
		for i := range scripts {
			k := core.Pick(s.Tape, "script", []string{"ok", "ok", "err", "panic", "slow"})
			scripts[i] = &hscript{kind: k, at: 1 + s.Tape.Draw("fail-at", n), errKind: s.Tape.Biased("err-kind", 5, 2)}
		}
		desc := make([]string, nh)
		for i, sc := range scripts {
			desc[i] = sc.kind
			if sc.kind == "err" || sc.kind == "panic" {
				desc[i] += fmt.Sprintf("@%d", sc.at)
			}
		}
		calls = nil
		for k := range firstDel {
			delete(firstDel, k)
		}
		side := "head"
		if from == m.Tail {
			side = "tail"
		}
		before := m.Clone()
		logBefore := w.Disk.LogLen()
		hist = append(hist, fmt.Sprintf("delete [%d,%d) (%s side) handlers=%s unflushed=%d", from, to, side, strings.Join(desc, ","), w.unflushed()))
		// sometimes the datastore refuses one write in the middle of this deletion
		diskFault := false
		// (sequential path only: with parallel workers the index of "the k-th write" is theirs to race for)
		if !(w.ParThreshold < 10000 && to-from >= w.ParThreshold) && s.Tape.Coin("disk-write-fails-once", 1, 5) {
			w.Disk.FaultBatchOps = true // (the deletes collected in a batch can be refused one by one, too)
			_, w0 := w.Disk.Counts()
			at := w0 + s.Tape.Draw("fail-write", 3*n+3)
			w.Disk.Fault = func(class, op, key string, idx int) error {
				if class == "write" && idx == at {
					diskFault = true
					return simdisk.ErrInjected
				}
				return nil
			}
		}
		var err error
		var panicked any
		w.do(fmt.Sprintf("delete [%d,%d)", from, to), func() {
			defer func() { panicked = recover() }()
			err = w.St.DeleteRange(ctxBG(), from, to)
		})
		w.Disk.Fault = nil
		w.Disk.FaultBatchOps = false
		evals++
		if panicked != nil {
			s.Violate("handler-panic-escaped", nil, "DeleteRange(%d,%d) let a handler panic escape: %v", from, to, panicked)
			break
		}
		if s.Failed() {
			break
		}
		_ = logBefore
		// which heights disappeared
		gone := map[uint64]bool{}
		w.do("probe", func() {
			for _, h := range before.Heights() {
				c, cancel := short(ctxBG())
				_, e := w.St.GetByHeight(c, h)
				cancel()
				if e != nil {
					gone[h] = true
				}
			}
		})
		at := map[string]string{"side": side}
		// calls per (handler,height)
		cnt := map[[2]uint64]int{}
		var failedAt uint64
		failed := false
		for _, c := range calls {
			cnt[[2]uint64{uint64(c.handler), c.height}]++
			if c.height < from || c.height >= to {
				s.Violate("handler-outside-range", at, "handler %d called for height %d outside [%d,%d)", c.handler, c.height, from, to)
			}
			if !c.readable || !c.byHash {
				s.Violate("handler-header-unreadable", at, "handler %d called for %d but the header was not readable (byHeight=%v byHash=%v) [%s]", c.handler, c.height, c.readable, c.byHash, w.cfg())
			}
			if c.result != "ok" && (!failed || c.height < failedAt) {
				// (with parallel workers several heights can fail in one call: the lowest one counts)
				failed, failedAt = true, c.height
			}
		}
		for _, h := range sortedHeights(gone) {
			if h < from || h >= to {
				s.Violate("outside-range-removed", at, "DeleteRange(%d,%d) on %s removed height %d", from, to, before, h)
				continue
			}
			for i := 0; i < nh; i++ {
				if c := cnt[[2]uint64{uint64(i), h}]; c != 1 {
					s.Violate("handler-call-count", map[string]string{"side": side, "count": fmt.Sprint(c)}, "height %d was removed but handler %d was called %d times (want exactly 1) [%s; %s; calls=%d]", h, i, c, w.cfg(), before, len(calls))
				}
			}
			for _, c := range calls {
				if c.height != h {
					continue
				}
				if c.result != "ok" {
					s.Violate("removed-despite-handler-failure", at, "height %d was removed although handler %d returned %s", h, c.handler, c.result)
				}
				if fd, ok := firstDel[h]; ok && fd < c.diskIdx {
					s.Violate("removed-before-handler", at, "height %d: first datastore delete at log index %d, handler %d ran at %d", h, fd, c.handler, c.diskIdx)
				}
			}
		}
		if s.Failed() {
			break
		}
		if diskFault {
			// a refused write ends the deletion part-way with an error (or, a pointer write, after
			// everything was removed): what is judged is what the handlers were told - exactly once
			// for each header that is gone, checked above - and that nothing outside the range moved;
			// which part of the range survived is taken from the store
			s.Probe("disk-write-failed-inside-delete")
			hist = append(hist, fmt.Sprintf("  a datastore write failed inside the deletion: err=%v", err != nil))
			if serr := w.Sync(); serr != nil {
				s.Violate("sync-error", nil, "Sync: %v", serr)
				break
			}
			for _, h := range sortedHeights(gone) {
				delete(m.Has, h)
			}
			w.do("ends", func() {
				if t, e := w.St.Tail(ctxBG()); e == nil {
					m.Tail = t.Height()
				}
				if hd, e := w.St.Head(ctxBG()); e == nil {
					m.Head = hd.Height()
				}
			})
			if len(m.Has) == 0 {
				m.Tail, m.Head = 0, 0
			}
			break // (what a later deletion finds after a refused write is C06's and C08's business)
		}
		if failed {
			if err == nil {
				s.Violate("handler-failure-swallowed", at, "a handler failed at height %d but DeleteRange(%d,%d) returned nil", failedAt, from, to)
				break
			}
			if gone[failedAt] {
				s.Violate("removed-despite-handler-failure", at, "height %d removed although its handler failed", failedAt)
				break
			}
			s.Probe("handler-failure-" + side)
			if side == "tail" {
				// headers above the failing one untouched
				parallel := w.ParThreshold < 10000 && to-from >= w.ParThreshold
				for h := failedAt; h < to && !parallel; h++ {
					// (sequential deletion stops at the failure; parallel workers by design
					// keep removing other heights of the range)
					if gone[h] {
						s.Violate("above-failure-removed", at, "tail-side DeleteRange(%d,%d) failed at %d but %d is gone", from, to, failedAt, h)
					}
				}
				for h := range gone {
					delete(m.Has, h)
				}
				// retry with healthy handlers: must call them for failedAt again and complete
				var cur uint64
				w.do("tail", func() {
					if t, e := w.St.Tail(ctxBG()); e == nil {
						cur = t.Height()
					}
				})
				if cur != failedAt {
					s.Violate("tail-not-at-failure", at, "tail-side DeleteRange(%d,%d) failed at %d; Tail is %d", from, to, failedAt, cur)
					break
				}
				m.Tail = cur
				for i := range scripts {
					scripts[i] = &hscript{kind: "ok"}
				}
				calls = nil
				hist = append(hist, fmt.Sprintf("  failed at %d; retry [%d,%d)", failedAt, cur, to))
				if e := w.Delete(cur, to); e != nil {
					s.Violate("retry-failed", at, "retry DeleteRange(%d,%d): %v", cur, to, e)
					break
				}
				again := 0
				for _, c := range calls {
					if c.height == failedAt {
						again++
					}
				}
				if again != nh {
					s.Violate("retry-skipped-handlers", at, "retry of tail-side deletion called %d handlers for height %d, want %d", again, failedAt, nh)
					break
				}
				m.Delete(cur, to)
				s.Probe("retry-ok")
				w.checkStore(m, "after retried delete")
			} else {
				// head-side: model from the store for the range
				w.resyncRange(m, from, to)
				if !s.Failed() {
					w.checkStore(m, "after failed head-side delete")
				}
			}
		} else {
			if err != nil {
				s.Violate("delete-rejected", at, "DeleteRange(%d,%d) with healthy handlers on %s: %v", from, to, before, err)
				break
			}
			for h := from; h < to; h++ {
				if before.Has[h] && !gone[h] {
					s.Violate("not-removed", at, "DeleteRange(%d,%d) returned nil but %d is still readable", from, to, h)
				}
			}
			m.Delete(from, to)
			s.Probe("delete-ok-" + side)
			w.checkStore(m, "after delete")
		}
	}
	return info()
}
