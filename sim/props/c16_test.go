package props

import (
	"context"
	"encoding/hex"
	"errors"
	"fmt"
	"strings"
	"time"

	"github.com/celestiaorg/go-header/store"
	hsync "github.com/celestiaorg/go-header/sync"

	"verifsim/core"
	"verifsim/simdisk"
	"verifsim/simhdr"
)

// C16 - Tail selection and pruning keep the tail within the chain and never crash.
func init() {
	register(&Scenario{ID: "C16", World: "Y", Hooks: false, Run: runC16})
}

type c16params struct {
	trusting, window, blockTime time.Duration
	fromHeight                  uint64
	fromHash                    string
	desc                        string
}

func runC16(s *core.Sim, tier string) RunInfo {
	simhdr.Reset()
	space := 3 * time.Second
	// chains start at height 1: the tail estimation falls back to "genesis" = height 1
	// for young chains, which a chain starting higher cannot serve (an error from
	// Start there is a configuration matter, not the arithmetic this property is about)
	first := uint64(1)
	length := uint64(5 + s.Tape.Draw("len", 200))
	// --- chain shape: regular, bursty, irregular, halted in the past
	shape := core.Pick(s.Tape, "shape", []string{"regular", "regular", "bursty", "slow", "halted"})
	haltAt := first + 1 + uint64(s.Tape.Draw("halt-at", int(length-1)))
	haltGap := time.Duration(1+s.Tape.Draw("halt-h", 400)) * time.Hour
	spacing := func(h uint64) time.Duration {
		switch shape {
		case "bursty":
			if h%7 < 4 {
				return 200 * time.Millisecond
			}
			return 8 * time.Second
		case "slow":
			return 2 * space
		case "halted":
			if h == haltAt {
				return haltGap
			}
		}
		return space
	}
	var total time.Duration
	for h := first + 1; h <= first+length; h++ {
		total += spacing(h)
	}
	w := newYW(s, first, first+length, space)
	w.Ch.Genesis = time.Now().Add(-total)
	top0 := first + length
	t0 := time.Now()
	w.Ch.Spacing = func(h uint64) time.Duration {
		if h > top0 {
			return space
		}
		return spacing(h)
	}
	nh := func() uint64 { return top0 + uint64(time.Since(t0)/space) }
	w.G.NetHead = nh
	var hist []string
	cycles := 0
	info := func() RunInfo {
		return RunInfo{Nontrivial: cycles > 0, StateKey: fmt.Sprint(hist), Evals: 1 + cycles,
			Sample: map[string]any{"chain": fmt.Sprintf("first=%d length=%d shape=%s age=%v", first, length, shape, total), "cycles": hist}}
	}
	defer w.teardown()
	w.configureDisk()
	if err := w.OpenStore(store.Parameters{WriteBatchSize: core.Pick(s.Tape, "batch", sizeKnob), StoreCacheSize: 64, IndexCacheSize: 64}); err != nil {
		s.Aborted = "store start: " + err.Error()
		return info()
	}
	ctx := context.Background()
	// the application's OnDelete handler refuses once, somewhere inside a prune: that prune stops
	// half-way (its progress is kept), and the Syncer must go on pruning and answering afterwards
	handlerFailed := false
	if w.Disk.Fault == nil && s.Tape.Coin("ondelete-handler-fails-once", 1, 4) {
		failAtCall, calls := 1+s.Tape.Draw("handler-fail-at", 40), 0
		w.St.OnDelete(func(context.Context, uint64) error {
			calls++
			if calls == failAtCall {
				handlerFailed = true
				s.Fault("ondelete-handler-error")
				return errors.New("application: handler says no")
			}
			return nil
		})
	}
	// tail requests beyond the network head are reported (wrap-around symptom)
	beyond := uint64(0)
	failNext := false // the next GetByHeight (the tail fetch of a Start) fails once
	w.G.ByHeightFault = func(n int, h uint64) error {
		if h > nh()+5 && beyond == 0 {
			beyond = h
		}
		if failNext {
			failNext = false
			s.Fault("tail-fetch-fails-once")
			return errors.New("getter: injected failure")
		}
		return nil
	}
	gen := func() c16params {
		var p c16params
		p.trusting = core.Pick(s.Tape, "trusting", []time.Duration{time.Hour, 100 * time.Hour, 336 * time.Hour, 100000 * time.Hour})
		p.window = core.Pick(s.Tape, "window", []time.Duration{0, 1, time.Minute, total / 2, total, total + time.Hour, 337 * time.Hour, 5000 * time.Hour})
		p.blockTime = core.Pick(s.Tape, "blocktime", []time.Duration{0, 1, space / 2, space, 2 * space, time.Hour})
		top := nh()
		switch core.Pick(s.Tape, "from", []string{"none", "none", "height", "hash"}) {
		case "height":
			p.fromHeight = core.Pick(s.Tape, "from-h", []uint64{first, first + (top-first)/2, top - 1, top})
			if p.fromHeight < first {
				p.fromHeight = first
			}
		case "hash":
			h := first + uint64(s.Tape.Draw("hash-h", int(top-first+1)))
			p.fromHash = hex.EncodeToString(w.Ch.At(h).Hash())
			p.desc = fmt.Sprintf("hash@%d ", h)
		}
		if p.window == 0 && p.fromHeight == 0 && p.fromHash == "" {
			p.window = time.Minute // Validate would reject the combination
		}
		p.desc += fmt.Sprintf("trusting=%v window=%v blockTime=%v fromHeight=%d", p.trusting, p.window, p.blockTime, p.fromHeight)
		return p
	}
	everStored := map[uint64]bool{}
	// (a Start that fails may have pruned already - under *its* configuration: what the next cycle's
	// window clause looks at is what is stored when that cycle begins)
	refreshEverStored := func() {
		everStored = map[uint64]bool{}
		for h := range w.storedHeights() {
			everStored[h] = true
		}
	}
	ncycles := 1 + s.Tape.Draw("cycles", 3)
	for c := 0; c < ncycles && !s.Failed(); c++ {
		p := gen()
		hist = append(hist, p.desc)
		opts := []hsync.Option{hsync.WithTrustingPeriod(p.trusting), hsync.WithPruningWindow(p.window), hsync.WithBlockTime(p.blockTime),
			hsync.WithRecencyThreshold(time.Duration(1+s.Tape.Draw("rec", 5)) * space), hsync.WithSyncFromHeight(p.fromHeight), hsync.WithSyncFromHash(p.fromHash)}
		if err := w.NewSyncer(opts...); err != nil {
			hist = append(hist, "  rejected by Validate: "+err.Error())
			continue
		}
		cycles++
		at := map[string]string{"blockTime0": fmt.Sprint(p.blockTime == 0)}
		var startErr error
		if s.Tape.Coin("tail-fetch-fails", 1, 5) {
			// the getter fails the first by-height request of this Start (the tail fetch, if one
			// is made): Start may fail with that error - never panic - and the next Start works
			failNext = true
			var firstErr error
			t, fin := s.Do("syncer-start-faulty", time.Hour, func() {
				c, cancel := context.WithTimeout(ctx, 50*time.Minute)
				defer cancel()
				firstErr = w.Sy.Start(c)
			})
			hit := !failNext
			failNext = false
			if t.Panic != nil {
				s.Violate("panic", map[string]string{"op": "Start", "blockTime0": fmt.Sprint(p.blockTime == 0)}, "Syncer.Start panicked when its tail request failed [%s] on chain first=%d head=%d (%s): %v\n%s", p.desc, first, nh(), shape, t.Panic, t.Stack)
				break
			}
			if !fin {
				s.Violate("hang", map[string]string{"op": "Start"}, "Syncer.Start did not return within a virtual hour after a failed tail request [%s]", p.desc)
				break
			}
			hist = append(hist, fmt.Sprintf("  start with a failing tail request: hit=%v err=%v", hit, firstErr != nil))
			if firstErr == nil {
				// started all the same: stop it, the regular start below begins afresh
				s.Do("syncer-stop", time.Hour, func() { _ = w.Sy.Stop(ctx) })
			}
			if err := w.NewSyncer(opts...); err != nil {
				s.Aborted = "NewSyncer: " + err.Error()
				break
			}
		}
		t, fin := s.Do("syncer-start", time.Hour, func() {
			c, cancel := context.WithTimeout(ctx, 50*time.Minute)
			defer cancel()
			startErr = w.Sy.Start(c)
		})
		if t.Panic != nil {
			s.Violate("panic", map[string]string{"op": "Start", "blockTime0": fmt.Sprint(p.blockTime == 0)}, "Syncer.Start panicked with accepted parameters [%s] on chain first=%d head=%d (%s): %v\n%s", p.desc, first, nh(), shape, t.Panic, t.Stack)
			break
		}
		if !fin {
			s.Violate("hang", map[string]string{"op": "Start"}, "Syncer.Start did not return within a virtual hour [%s]", p.desc)
			break
		}
		if beyond != 0 {
			s.Violate("tail-beyond-head", at, "the tail computation asked the getter for height %d while the network head is %d [%s; chain first=%d shape=%s]", beyond, nh(), p.desc, first, shape)
			break
		}
		if startErr != nil {
			// an expired network head is a legitimate reason to refuse to start
			expired := time.Since(w.Ch.At(nh()).Time()) > p.trusting
			if strings.Contains(startErr.Error(), simdisk.ErrInjected.Error()) {
				// the datastore failed a write under the Store (injected window): Start may say so
				hist = append(hist, "  start failed on an injected datastore error")
				s.Probe("start-failed-on-disk-error")
				refreshEverStored()
				continue
			}
			if strings.Contains(startErr.Error(), "application: handler says no") {
				// the application's OnDelete handler refused inside Start's own tail move: Start may say so
				hist = append(hist, "  start failed on the OnDelete handler's refusal")
				s.Probe("start-failed-on-handler-error")
				refreshEverStored()
				continue
			}
			if !expired {
				if strings.Contains(startErr.Error(), "beyond current head+1") {
					at["reason"] = "new-tail-above-stored-head"
				}
				s.Violate("start-error", at, "Syncer.Start with a responsive honest getter and satisfiable parameters [%s] failed: %v", p.desc, startErr)
				break
			}
			hist = append(hist, "  start refused: network head expired")
			refreshEverStored()
			continue
		}
		// a few heads via gossip and Head(), clock moving on
		for i, n := 0, s.Tape.Draw("steps", 4); i < n && !s.Failed(); i++ {
			s.Sleep(time.Duration(1+s.Tape.Draw("blocks", 10)) * space)
			var tk *core.Task
			if s.Tape.Coin("via-head", 1, 2) {
				tk = s.Go("head", func() {
					c, cancel := context.WithTimeout(ctx, 20*time.Minute)
					defer cancel()
					_, _ = w.Sy.Head(c)
				})
			} else if s.Tape.Coin("gossip-is-forged-known", 1, 3) {
				// a header the Syncer must refuse - a height it is already at or past - that claims a
				// time far ahead: it is refused, and a refused header moves nothing, the pruning
				// window included
				x := nh() - uint64(s.Tape.Draw("known-back", 3))
				if x < first {
					x = first
				}
				h := simhdr.Retime(w.Ch.At(x), time.Now().Add(time.Duration(1+s.Tape.Draw("ahead-h", 48))*time.Hour))
				var gerr error
				tk = s.Go("gossip-forged-known", func() {
					c, cancel := context.WithTimeout(ctx, 20*time.Minute)
					defer cancel()
					// (first make sure the honest header of that height is known)
					_ = w.Sub.Deliver(c, w.Ch.At(x))
					gerr = w.Sub.Deliver(c, h)
					if gerr == nil {
						s.Violate("bad-gossip-accepted", map[string]string{"kind": "retimed-known"}, "a header of the known height %d dated %v ahead was accepted", x, time.Until(h.Time()))
					}
				})
				s.Probe("forged-known-height-gossip")
			} else {
				h := w.Ch.At(nh())
				tk = s.Go("gossip", func() {
					c, cancel := context.WithTimeout(ctx, 20*time.Minute)
					defer cancel()
					// the newest honest header: whatever becomes of the tail move it triggers (K02,
					// a refusing handler, a failing disk), that is not a verdict on the header
					if gerr := w.Sub.Deliver(c, h); gerr != nil && time.Since(h.Time()) < p.trusting && !strings.Contains(gerr.Error(), simdisk.ErrInjected.Error()) {
						s.Violate("honest-gossip-refused", nil, "the network head %d, delivered by gossip, was refused: %v [%s]", h.Height(), gerr, p.desc)
					}
				})
			}
			if stuck := s.Settle(30*time.Minute, tk); len(stuck) > 0 {
				s.Violate("hang", map[string]string{"op": opName(tk.Name)}, "%s did not return within 30 virtual minutes [%s]", tk.Name, p.desc)
				break
			}
			if tk.Panic != nil {
				s.Violate("panic", map[string]string{"op": opName(tk.Name), "blockTime0": fmt.Sprint(p.blockTime == 0)}, "%s panicked [%s]: %v\n%s", tk.Name, p.desc, tk.Panic, tk.Stack)
				break
			}
			if beyond != 0 {
				s.Violate("tail-beyond-head", at, "the tail computation asked the getter for height %d while the network head is %d [%s]", beyond, nh(), p.desc)
				break
			}
		}
		if s.Failed() {
			break
		}
		if handlerFailed && shape != "halted" {
			// after the one refusal nothing is wedged: the next head is taken as any other
			s.Sleep(time.Duration(1+s.Tape.Draw("blocks", 10)) * space)
			var herr error
			tk := s.Go("head", func() {
				c, cancel := context.WithTimeout(ctx, 20*time.Minute)
				defer cancel()
				_, herr = w.Sy.Head(c)
			})
			if stuck := s.Settle(30*time.Minute, tk); len(stuck) > 0 || tk.Panic != nil {
				s.Violate("hang", map[string]string{"op": "Head", "after": "handler-error"}, "Head() after an OnDelete handler refused once: stuck=%v panic=%v [%s]", len(stuck) > 0, tk.Panic, p.desc)
				break
			}
			if herr != nil && strings.Contains(herr.Error(), "beyond current head+1") {
				// (the listed finding K02, met at run time: the new tail is above the stored head)
				s.Probe("head-after-handler-error-met-K02")
			} else if herr != nil {
				s.Violate("head-error-after-handler-error", nil, "an OnDelete handler refused once (a prune stopped half-way); a later Head() fails: %v [%s]", herr, p.desc)
				break
			}
			s.Probe("head-after-handler-error")
		}
		// let syncing finish, then look at the store
		tk := s.Go("sync-wait", func() {
			c, cancel := context.WithTimeout(ctx, 30*time.Minute)
			defer cancel()
			_ = w.Sy.SyncWait(c)
		})
		s.Settle(31*time.Minute, tk)
		s.Quiesce(time.Second)
		w.OracleAttrs = nil
		if p.fromHeight == 0 && p.fromHash == "" && p.window < 2*space {
			// a window shorter than two blocks puts the tail at the head itself: every prune then
			// reaches into heights the sync loop is appending at that moment (F28, repaired)
			w.OracleAttrs = map[string]string{"window": "below-two-blocks"}
		}
		w.checkStoreIsHonestChain(fmt.Sprintf("cycle %d [%s]", c, p.desc), true)
		w.OracleAttrs = nil
		if s.Failed() {
			break
		}
		// pruning-window clause (window-based tails only, spacing within blockTime)
		idx := w.storedHeights()
		var headH uint64
		for h := range idx {
			if h > headH {
				headH = h
			}
		}
		if p.fromHeight == 0 && p.fromHash == "" && headH > 0 && p.blockTime >= 8*time.Second && shape != "halted" {
			cut := w.Ch.At(headH).Time().Add(-p.window)
			for _, h := range sortedHeights(everStored) { // = stored at the end of the previous cycle
				if _, ok := idx[h]; !ok && w.Ch.At(h).Time().After(cut) {
					s.Violate("pruned-inside-window", nil, "height %d (time %v) was deleted although it is younger than head(%d).Time-PruningWindow=%v [%s]", h, w.Ch.At(h).Time().Format("15:04:05"), headH, cut.Format("15:04:05"), p.desc)
					break
				}
			}
		}
		everStored = map[uint64]bool{}
		for h := range idx {
			everStored[h] = true
		}
		// stop this Syncer instance; the next cycle reconfigures on the same store
		sy := w.Sy
		s.Go("stop-syncer", func() { _ = sy.Stop(ctx) })
		s.Quiesce(0)
		w.Sy = nil
	}
	return info()
}
