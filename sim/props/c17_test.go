package props

import (
	"context"
	"fmt"
	"sync"
	"sync/atomic"
	"time"

	"verifsim/core"
	"verifsim/simhdr"
)

// C17 - Concurrent Store use keeps Head monotone and readers never see torn state.
func init() {
	register(&Scenario{ID: "C17", World: "S", Hooks: true, Run: runC17})
}

func runC17(s *core.Sim, tier string) RunInfo {
	w := newSW(s, false)
	w.Disk.Park = s.Tape.Coin("park-disk", 2, 3)
	s.SchedDen = core.Pick(s.Tape, "sched-den", []int{1, 2, 3, 6})
	m := w.M
	var plan []string
	var obs64 int64
	info := func() RunInfo {
		return RunInfo{Nontrivial: s.Preempts > 0 && obs64 > 0, StateKey: w.cfg() + fmt.Sprint(plan), Evals: 1 + int(obs64),
			Sample: map[string]any{"config": w.cfg(), "plan": plan, "observations": obs64, "preemptions": s.Preempts}}
	}
	if err := w.Open(); err != nil {
		s.Violate("start-error", nil, "Start: %v", err)
		return info()
	}
	defer func() {
		w.S.Go("final-stop", func() { _ = w.St.Stop(ctxBG()) })
		w.S.Quiesce(0)
	}()
	first := w.Ch.First
	k := uint64(2 + s.Tape.Draw("initial", 6))
	if err := w.Append(w.Ch.Range(first, first+k-1)...); err != nil {
		s.Violate("append-error", nil, "%v", err)
		return info()
	}
	m.Append(first, first+k-1)
	_ = w.Sync()
	top := first + k
	plan = append(plan, fmt.Sprintf("initial %d..%d", first, top-1))
	ctx := context.Background()
	if s.Tape.Coin("stop-races-with-users", 1, 5) {
		runC17Stop(s, w, first, top, &plan, &obs64)
		return info()
	}

	// writers
	type run struct{ from, to uint64 }
	nw := 2 + s.Tape.Draw("writers", 3)
	// heights whose Append+Sync has completed (mutex: tasks woken by channel
	// operations run on the Go scheduler between park points)
	var syncedMu sync.Mutex
	syncedM := map[uint64]bool{}
	setSynced := func(h uint64) { syncedMu.Lock(); syncedM[h] = true; syncedMu.Unlock() }
	isSynced := func(h uint64) bool { syncedMu.Lock(); defer syncedMu.Unlock(); return syncedM[h] }
	for h := first; h < top; h++ {
		setSynced(h)
	}
	var tasks []*core.Task
	var all []run
	for wi := 0; wi < nw; wi++ {
		n := 1 + s.Tape.Draw("runs", 3)
		var rs []run
		for j := 0; j < n; j++ {
			off := uint64(s.Tape.Draw("run-off", 8))
			ln := uint64(1 + s.Tape.Draw("run-len", 4))
			rs = append(rs, run{top + off, top + off + ln - 1})
		}
		all = append(all, rs...)
		plan = append(plan, fmt.Sprintf("writer%d %v", wi, rs))
		wi := wi
		tasks = append(tasks, s.Go(fmt.Sprintf("writer%d", wi), func() {
			for _, r := range rs {
				if err := w.St.Append(ctx, w.Ch.Range(r.from, r.to)...); err != nil {
					s.Violate("append-error", nil, "Append(%d..%d): %v", r.from, r.to, err)
					return
				}
				if err := w.St.Sync(ctx); err != nil {
					s.Violate("sync-error", nil, "Sync: %v", err)
					return
				}
				// the caller's own view right after Sync returned: every header it appended is readable
				for h := r.from; h <= r.to; h++ {
					x := w.Ch.At(h)
					if g, err := w.St.Get(ctx, x.Hash()); err != nil || !simhdr.Equal(g, x) {
						s.Violate("synced-unreadable", map[string]string{"by": "writer"}, "writer%d: Append(%d..%d) and Sync returned but Get(hash of %d)=%v,%v [%s; %v]", wi, r.from, r.to, h, g, err, w.cfg(), plan)
						return
					}
				}
				for h := r.from; h <= r.to; h++ {
					setSynced(h)
				}
			}
		}))
	}
	// optional deleter: tail-side, strictly inside the initial chain
	delTo := uint64(0)
	wipeRace := false
	// headMayVanish: a whole-chain deletion is in the race. It removes the very header Head() names
	// (headers first, pointers last), and the store may be empty for a moment: what a reader sees
	// of the head in that window is not judged, the final state is.
	headMayVanish := false
	var delErr error
	delDone := false
	if k >= 3 && s.Tape.Coin("deleter", 1, 2) {
		delTo = first + 1 + uint64(s.Tape.Draw("del-to", int(k-2)))
		// sometimes the whole initial chain goes, up to the first height the writers append: the
		// deletion then runs over the head it saw (a tail-side deletion all the same: it starts
		// only once that first appended header is readable, so there is always a header to become
		// the new tail)
		overHead := false
		// ... or it does not wait: the deletion may then find nothing at its upper end yet and
		// take the whole-chain path while the first append is on its way
		wipeRace = s.Tape.Coin("whole-chain-delete-races-first-append", 1, 2)
		for _, r := range all {
			if r.from == top && s.Tape.Coin("delete-up-to-first-appended", 1, 3) {
				overHead = true
				delTo = top
				headMayVanish = wipeRace
				break
			}
		}
		plan = append(plan, fmt.Sprintf("deleter [%d,%d)", first, delTo))
		tasks = append(tasks, s.Go("deleter", func() {
			if overHead && !wipeRace {
				s.Probe("deleter-runs-over-the-head")
				for i := 0; i < 200; i++ {
					c, cancel := short(ctx)
					_, err := w.St.GetByHeight(c, top)
					cancel()
					if err == nil {
						break
					}
					s.Yield("deleter-waits-for-first-append")
				}
			}
			delErr = w.St.DeleteRange(ctx, first, delTo)
			delDone = true
		}))
	}
	// readers
	nr := 1 + s.Tape.Draw("readers", 3)
	stop := false
	for ri := 0; ri < nr; ri++ {
		ri := ri
		rounds := 2 + s.Tape.Draw("rounds", 5)
		tasks = append(tasks, s.Go(fmt.Sprintf("reader%d", ri), func() {
			var lastHead, lastHeight uint64
			for i := 0; i < rounds && !stop && !s.Failed(); i++ {
				atomic.AddInt64(&obs64, 1)
				hd, err := w.St.Head(ctx)
				if headMayVanish {
					if err == nil {
						_, _ = w.St.GetByHeight(ctx2s(ctx), hd.Height())
						_, _ = w.St.Get(ctx, hd.Hash())
					}
					_ = w.St.Height()
					s.Yield("reader-pause")
					continue
				}
				if err != nil {
					s.Violate("head-error", nil, "Head(): %v", err)
					return
				}
				if hd.Height() < lastHead {
					s.Violate("head-went-back", map[string]string{"api": "Head"}, "reader%d saw Head().Height() go %d -> %d [%s; %v]", ri, lastHead, hd.Height(), w.cfg(), plan)
					return
				}
				lastHead = hd.Height()
				ht := w.St.Height()
				if ht < lastHeight {
					s.Violate("head-went-back", map[string]string{"api": "Height"}, "reader%d saw Height() go %d -> %d [%s; %v]", ri, lastHeight, ht, w.cfg(), plan)
					return
				}
				lastHeight = ht
				if !w.Ch.Is(hd) {
					s.Violate("head-not-on-chain", nil, "Head()=%v", hd)
					return
				}
				if hd.Height() < delTo {
					// the head this reader has just been told lies inside the range the deleter removes
					// (a deletion up to the first appended height): it may be gone a moment later
					s.Yield("reader-pause")
					continue
				}
				g, err := w.St.GetByHeight(ctx, hd.Height())
				if err != nil || !simhdr.Equal(g, hd) {
					s.Violate("head-not-retrievable", map[string]string{"by": "height"}, "reader%d: Head()=%v but GetByHeight(%d)=%v,%v [%s; %v]", ri, hd, hd.Height(), g, err, w.cfg(), plan)
					return
				}
				g, err = w.St.Get(ctx, hd.Hash())
				if err != nil || !simhdr.Equal(g, hd) {
					s.Violate("head-not-retrievable", map[string]string{"by": "hash"}, "reader%d: Head()=%v but Get(hash)=%v,%v [%s; %v]", ri, hd, g, err, w.cfg(), plan)
					return
				}
				// a header whose Append was followed by a completed Sync is readable
				var cands []uint64
				for h := top; h < top+14; h++ {
					if isSynced(h) {
						cands = append(cands, h)
					}
				}
				for h := delTo; h < top; h++ {
					if h >= first && isSynced(h) {
						cands = append(cands, h)
					}
				}
				if len(cands) > 0 {
					h := cands[(i*7+ri*3)%len(cands)]
					c, cancel := short(ctx)
					g, err := w.St.GetByHeight(c, h)
					cancel()
					if err != nil || !simhdr.Equal(g, w.Ch.At(h)) {
						s.Violate("synced-unreadable", nil, "reader%d: height %d was appended and synced but GetByHeight=%v,%v [%s; %v]", ri, h, g, err, w.cfg(), plan)
						return
					}
				}
				// reads inside the range a racing tail-side deletion is removing: either answer is
				// fine while the race is on, but nothing may make the header readable afterwards
				// (checked by the final comparison with the model)
				if delTo > first {
					h := first + uint64((i*5+ri)%int(delTo-first))
					c, cancel := short(ctx)
					if (i+ri)%2 == 0 {
						// by hash first: the header is not in the caches yet, it comes from the datastore
						if g, err := w.St.Get(c, w.Ch.At(h).Hash()); err == nil && !simhdr.Equal(g, w.Ch.At(h)) {
							s.Violate("wrong-header", nil, "Get(hash of %d) returned %v", h, g)
						}
					}
					if g, err := w.St.GetByHeight(c, h); err == nil {
						if !simhdr.Equal(g, w.Ch.At(h)) {
							s.Violate("wrong-header", nil, "GetByHeight(%d) returned %v", h, g)
						}
						_, _ = w.St.Get(c, g.Hash())
					} else {
						_, _ = w.St.Get(c, w.Ch.At(h).Hash())
					}
					cancel()
					s.Probe("read-inside-range-being-deleted")
				}
				s.Yield("reader-pause")
			}
		}))
	}
	if stuck := s.Settle(10*time.Minute, tasks...); len(stuck) > 0 && !s.Failed() {
		s.Violate("hang", map[string]string{"op": opName(stuck[0].Name)}, "task %s did not finish [%s; %v]", stuck[0].Name, w.cfg(), plan)
		return info()
	}
	stop = true
	for _, t := range tasks {
		if t.Panic != nil {
			s.Violate("panic", map[string]string{"op": opName(t.Name)}, "%s panicked: %v\n%s", t.Name, t.Panic, t.Stack)
		}
	}
	if s.Failed() {
		return info()
	}
	// final state == sequential model of the same appends (order-insensitive for chain headers)
	for _, r := range all {
		m.Append(r.from, r.to)
	}
	if delTo > 0 {
		if !delDone || delErr != nil {
			s.Violate("delete-rejected", map[string]string{"racing": "true"}, "tail-side DeleteRange(%d,%d) racing with appends: done=%v err=%v [%s; %v]", first, delTo, delDone, delErr, w.cfg(), plan)
			return info()
		}
		m.Delete(first, delTo)
		s.Probe("deleter-raced")
	}
	if headMayVanish {
		// the whole chain went while appends arrived: whether the store was empty in between (and
		// re-initialised from whichever append came next) or not, afterwards nothing deleted is
		// readable, everything appended is stored, and Tail..Head is a gap-free run of the chain
		s.Probe("whole-chain-delete-raced-appends")
		var endHead, endTail uint64
		w.do("check-after-whole-chain-race", func() {
			why := fmt.Sprintf("after a whole-chain deletion raced with appends; %s; %v", w.cfg(), plan)
			for h := first; h < delTo; h++ {
				c, cancel := short(ctx)
				g1, e1 := w.St.GetByHeight(c, h)
				g2, e2 := w.St.Get(c, w.Ch.At(h).Hash())
				cancel()
				if e1 == nil || e2 == nil {
					s.Violate("absent-readable", map[string]string{"by": "either", "race": "whole-chain"}, "[%s] deleted height %d is readable: byHeight=%v byHash=%v", why, h, g1, g2)
					return
				}
			}
			for _, r := range all {
				for h := r.from; h <= r.to; h++ {
					if g, err := w.St.Get(ctx, w.Ch.At(h).Hash()); err != nil || !simhdr.Equal(g, w.Ch.At(h)) {
						s.Violate("stored-unreadable", map[string]string{"by": "hash", "race": "whole-chain"}, "[%s] appended height %d: Get(hash)=%v,%v", why, h, g, err)
						return
					}
				}
			}
			hd, herr := w.St.Head(ctx)
			tl, terr := w.St.Tail(ctx)
			if herr != nil || terr != nil {
				s.Violate("ends-mismatch", map[string]string{"kind": "error", "race": "whole-chain"}, "[%s] Head err=%v Tail err=%v", why, herr, terr)
				return
			}
			for h := tl.Height(); h <= hd.Height(); h++ {
				c, cancel := short(ctx)
				g, err := w.St.GetByHeight(c, h)
				cancel()
				if err != nil || !simhdr.Equal(g, w.Ch.At(h)) {
					s.Violate("stored-unreadable", map[string]string{"by": "height", "race": "whole-chain"}, "[%s] Tail=%d Head=%d but GetByHeight(%d)=%v,%v", why, tl.Height(), hd.Height(), h, g, err)
					return
				}
			}
			if w.St.Height() != hd.Height() {
				s.Violate("height-mismatch", map[string]string{"race": "whole-chain"}, "[%s] Height()=%d Head()=%d", why, w.St.Height(), hd.Height())
			}
			endHead, endTail = hd.Height(), tl.Height()
		})
		if !s.Failed() && endHead != 0 && s.Tape.Coin("restart-at-the-end", 1, 2) {
			// what the race left in memory is also what it left in the datastore
			if err := w.Restart(); err != nil {
				s.Violate("start-error", map[string]string{"after": "concurrent-use"}, "restart after concurrent use: %v", err)
				return info()
			}
			w.do("check-after-restart", func() {
				hd, herr := w.St.Head(ctx)
				tl, terr := w.St.Tail(ctx)
				if herr != nil || terr != nil || hd.Height() != endHead || tl.Height() != endTail {
					s.Violate("ends-mismatch", map[string]string{"kind": "restart", "race": "whole-chain"}, "after a whole-chain deletion raced with appends the store had Tail=%d Head=%d; after a clean restart Head=%v,%v Tail=%v,%v [%s; %v]", endTail, endHead, hd, herr, tl, terr, w.cfg(), plan)
				}
			})
		}
		return info()
	}
	w.checkStore(m, "after all writers finished")
	if !s.Failed() && s.Tape.Coin("restart-at-the-end", 1, 2) {
		// what the race left in memory is also what it left in the datastore
		if err := w.Restart(); err != nil {
			s.Violate("start-error", map[string]string{"after": "concurrent-use"}, "restart after concurrent use: %v", err)
			return info()
		}
		w.checkStore(m, "after all writers finished and a clean restart")
	}
	return info()
}

// runC17Stop: Stop is called while writers and readers are still using the Store. Nothing may
// panic or hang, and after a restart everything whose Append and Sync had returned before Stop
// was called is there, in one gap-free chain with Head and Tail resolving (C06's promise, under
// C17's concurrency).
func runC17Stop(s *core.Sim, w *SW, first, top uint64, plan *[]string, obs *int64) {
	var mu sync.Mutex
	stopCalled := false
	acked := map[uint64]bool{}
	appended := map[uint64]bool{} // Append returned nil (whenever)
	for h := first; h < top; h++ {
		acked[h] = true
	}
	var tasks []*core.Task
	nw := 1 + s.Tape.Draw("writers", 3)
	next := top
	for wi := 0; wi < nw; wi++ {
		n := 1 + s.Tape.Draw("runs", 4)
		type run struct{ from, to uint64 }
		var rs []run
		for j := 0; j < n; j++ {
			ln := uint64(1 + s.Tape.Draw("run-len", 4))
			rs = append(rs, run{next, next + ln - 1}) // one contiguous chain, split among the writers
			next += ln
		}
		syncAfterAppend := s.Tape.Coin("writer-syncs", 2, 3)
		*plan = append(*plan, fmt.Sprintf("writer%d %v sync=%v", wi, rs, syncAfterAppend))
		tasks = append(tasks, s.Go(fmt.Sprintf("writer%d", wi), func() {
			for _, r := range rs {
				c, cancel := context.WithTimeout(context.Background(), time.Minute)
				err := w.St.Append(c, w.Ch.Range(r.from, r.to)...)
				if err == nil {
					mu.Lock()
					for h := r.from; h <= r.to; h++ {
						appended[h] = true
						if !stopCalled {
							acked[h] = true // "everything whose Append returned before Stop"
						}
					}
					mu.Unlock()
					// (some writers go on to Sync, which may still be in flight when Stop comes; others just append)
					if syncAfterAppend {
						err = w.St.Sync(c)
					}
				}
				cancel()
				if err != nil {
					return // the Store is stopping: an error is a fine answer
				}
				mu.Lock()
				if !stopCalled {
					for h := r.from; h <= r.to; h++ {
						acked[h] = true
					}
				}
				mu.Unlock()
				atomic.AddInt64(obs, 1)
			}
		}))
	}
	for ri, nr := 0, 1+s.Tape.Draw("readers", 2); ri < nr; ri++ {
		ri := ri
		rounds := 2 + s.Tape.Draw("rounds", 5)
		tasks = append(tasks, s.Go(fmt.Sprintf("reader%d", ri), func() {
			for i := 0; i < rounds; i++ {
				c, cancel := context.WithTimeout(context.Background(), 10*time.Second)
				if hd, err := w.St.Head(c); err == nil {
					_, _ = w.St.GetByHeight(c, hd.Height())
					_, _ = w.St.Get(c, hd.Hash())
					// a waiter on a height that may never come while the Store stops
					_, _ = w.St.GetByHeight(c, hd.Height()+uint64(1+(i+ri)%3))
				}
				cancel()
				s.Yield("reader-pause")
			}
		}))
	}
	var stopErr error
	pauses := s.Tape.Draw("stop-after-pauses", 12)
	stopper := s.Go("stopper", func() {
		for i := 0; i < pauses; i++ {
			s.Yield("stopper-pause")
		}
		mu.Lock()
		stopCalled = true
		mu.Unlock()
		c, cancel := context.WithTimeout(context.Background(), 5*time.Minute)
		defer cancel()
		stopErr = w.St.Stop(c)
	})
	tasks = append(tasks, stopper)
	*plan = append(*plan, fmt.Sprintf("Stop after %d pauses of the stopper", pauses))
	if stuck := s.Settle(20*time.Minute, tasks...); len(stuck) > 0 {
		s.Violate("hang", map[string]string{"op": opName(stuck[0].Name), "racing": "stop"}, "task %s did not finish while the Store was being stopped [%s; %v]", stuck[0].Name, w.cfg(), *plan)
		return
	}
	for _, t := range tasks {
		if t.Panic != nil {
			s.Violate("panic", map[string]string{"op": opName(t.Name), "racing": "stop"}, "%s panicked while the Store was being stopped: %v\n%s", t.Name, t.Panic, t.Stack)
			return
		}
	}
	if stopErr != nil {
		s.Violate("stop-error", map[string]string{"racing": "users"}, "Stop with users still active: %v", stopErr)
		return
	}
	s.Probe("stop-raced-with-users")
	sameObject := s.Tape.Coin("restart-same-object", 1, 2)
	if sameObject {
		// the very same Store object is started again: what was accepted into its write queue
		// behind the stop marker is still there and gets written now
		var err error
		_, fin := s.Do("start-again", opBudget, func() { err = startStore(w.St) })
		if !fin || err != nil {
			s.Violate("start-error", map[string]string{"after": "stop-race", "same": "object"}, "Start of the same Store object after a Stop that raced with users: finished=%v err=%v", fin, err)
			return
		}
		if err := w.Sync(); err != nil {
			s.Violate("sync-error", nil, "Sync after restart: %v", err)
			return
		}
		s.Probe("same-store-object-restarted-after-stop-race")
	} else if err := w.Open(); err != nil {
		s.Violate("start-error", map[string]string{"after": "stop-race"}, "Start after a Stop that raced with users: %v", err)
		return
	}
	w.do("check-after-stop-race", func() {
		c := ctxBG()
		hd, herr := w.St.Head(c)
		tl, terr := w.St.Tail(c)
		if herr != nil || terr != nil {
			s.Violate("ends-lost-after-stop", nil, "after restart Head err=%v Tail err=%v [%s; %v]", herr, terr, w.cfg(), *plan)
			return
		}
		for h := tl.Height(); h <= hd.Height(); h++ {
			cc, cancel := short(c)
			g, err := w.St.GetByHeight(cc, h)
			cancel()
			if err != nil || !simhdr.Equal(g, w.Ch.At(h)) {
				s.Violate("gap-after-stop", nil, "after restart Tail=%d Head=%d but GetByHeight(%d)=%v,%v [%s; %v]", tl.Height(), hd.Height(), h, g, err, w.cfg(), *plan)
				return
			}
		}
		mu.Lock()
		defer mu.Unlock()
		if sameObject {
			// "every header whose Append has been followed by Sync is readable": the Sync after the restart counts
			for _, h := range sortedHeights(appended) {
				x := w.Ch.At(h)
				if g, err := w.St.Get(c, x.Hash()); err != nil || !simhdr.Equal(g, x) {
					s.Violate("synced-unreadable", map[string]string{"by": "hash", "after": "restart-of-same-object"}, "Append of %d returned nil, the same Store object was restarted and synced, but Get(hash)=%v,%v [%s; %v]", h, g, err, w.cfg(), *plan)
					return
				}
			}
		}
		for _, h := range sortedHeights(acked) {
			x := w.Ch.At(h)
			g, err := w.St.Get(c, x.Hash())
			// (an acknowledged header above a gap left by a slower writer is stored, but not yet below Head)
			if err != nil || !simhdr.Equal(g, x) {
				s.Violate("acked-append-lost-after-stop", nil, "Append of %d had returned before Stop was called, after the restart Get(hash)=%v,%v (Tail=%d Head=%d) [%s; %v]", h, g, err, tl.Height(), hd.Height(), w.cfg(), *plan)
				return
			}
		}
	})
}

// ctx2s bounds a lookup that may wait for a height which is being deleted under the reader.
func ctx2s(ctx context.Context) context.Context {
	c, cancel := context.WithTimeout(ctx, 2*time.Second)
	_ = cancel // released by the timeout (virtual time)
	return c
}
