package props

import (
	"context"
	"errors"
	"fmt"
	"sort"
	"strings"
	"time"

	header "github.com/celestiaorg/go-header"
	"github.com/celestiaorg/go-header/store"

	"verifsim/core"
	"verifsim/simdisk"
	"verifsim/simhdr"
)

type H = simhdr.H

var sizeKnob = []int{1, 2, 3, 5, 8, 64}

// cache sizes start at 2: hashicorp's 2Q cache cannot be built with size 1
// (its ghost list would have size 0), so NewStore rejects that configuration
// with an error - there is no store to check.
var cacheKnob = []int{2, 3, 5, 8, 64}

// SW is world S: the real store.Store over a SimDisk.
type SW struct {
	S     *core.Sim
	Disk  *simdisk.Disk
	Flav  string
	St    *store.Store[*H]
	P     store.Parameters
	Ch    *simhdr.Chain
	M     *StoreModel
	opens int
	// crashWithin: for C06, which operation the examined crash point interrupts
	crashWithin string
	// ParThreshold is the parallel-deletion threshold of this run
	ParThreshold uint64
	// Metrics: the Store is built with its metrics on (configuration knob)
	Metrics bool
	// Prefix is the datastore namespace of the Store: "/headers" unless WithStorePrefix says otherwise
	Prefix string
}

func newSW(s *core.Sim, park bool) *SW {
	w := &SW{S: s}
	w.P = store.Parameters{
		WriteBatchSize: core.Pick(s.Tape, "batch", sizeKnob),
		StoreCacheSize: core.Pick(s.Tape, "cache", cacheKnob),
		IndexCacheSize: core.Pick(s.Tape, "icache", cacheKnob),
	}
	w.Flav = core.Pick(s.Tape, "flavour", []string{"plain", "ctx", "snap"})
	w.Metrics = s.Tape.Coin("store-metrics", 1, 3)
	w.Prefix = "/headers"
	if s.Tape.Coin("custom-store-prefix", 1, 4) {
		w.Prefix = "/hdr-x" // configuration knob: WithStorePrefix
	}
	first := core.Pick(s.Tape, "first", []uint64{1, 1, 7, 1000})
	w.Ch = simhdr.NewChain("sim-chain", first, time.Now().Add(-1000*time.Hour), 3*time.Second)
	w.Disk = simdisk.New("d0", s)
	w.Disk.ErrWraps = core.Pick(s.Tape, "disk-error-kind", []error{nil, nil, context.DeadlineExceeded, context.Canceled})
	w.Disk.Park = park
	w.M = newStoreModel()
	// tuning knob: from which range size DeleteRange deletes with parallel workers
	// (10000 in production; lowered here so that small chains reach that path)
	w.ParThreshold = 10000
	store.SimSetDeleteParallelThreshold(w.ParThreshold)
	return w
}

// lowerParallelThreshold lets small ranges take DeleteRange's parallel path.
// Fault-free configurations use it (there the parallel path must behave exactly like
// the sequential one) and C14's handler failures (one half in two, so the text says
// "one run in two"). Under deadlines, write errors and crashes the parallel path
// deletes an arbitrary subset by design; that regime is not explored.
func (w *SW) lowerParallelThreshold() {
	w.ParThreshold = core.Pick(w.S.Tape, "parallel-threshold", []uint64{10000, 10000, 3, 6})
	store.SimSetDeleteParallelThreshold(w.ParThreshold)
	if w.ParThreshold < 10000 {
		w.S.Probe("parallel-delete-path-enabled")
	}
}

func (w *SW) cfg() string {
	return fmt.Sprintf("batch=%d cache=%d icache=%d flav=%s first=%d parthr=%d prefix=%s", w.P.WriteBatchSize, w.P.StoreCacheSize, w.P.IndexCacheSize, w.Flav, w.Ch.First, w.ParThreshold, w.Prefix)
}

// storeOpts are the options every Store of this run is built with.
func (w *SW) storeOpts() []store.Option {
	opts := []store.Option{store.WithParams(w.P)}
	if w.Metrics {
		opts = append(opts, store.WithMetrics())
	}
	if w.Prefix != "/headers" {
		opts = append(opts, store.WithStorePrefix(strings.TrimPrefix(w.Prefix, "/")))
	}
	return opts
}

const opBudget = 10 * time.Minute // virtual

// Open creates a new Store instance on the disk and starts it.
func (w *SW) Open() error {
	var err error
	w.opens++
	_, fin := w.S.Do(fmt.Sprintf("open%d", w.opens), opBudget, func() {
		var st *store.Store[*H]
		st, err = store.NewStore[*H](w.Disk.Flavour(w.Flav), w.storeOpts()...)
		if err != nil {
			return
		}
		err = startStore(st)
		w.St = st
	})
	if !fin {
		return errors.New("open: did not finish")
	}
	return err
}

// CrashReopen abandons the running Store without Stop (its datastore is detached: what it
// still writes vanishes) and opens a new Store on an image of everything written so far.
func (w *SW) CrashReopen() error {
	old, oldDisk := w.St, w.Disk
	img := simdisk.FromImage(fmt.Sprintf("d%d", w.opens), w.S, oldDisk.Log())
	img.Park = oldDisk.Park
	oldDisk.Blackhole()
	w.S.Go("stop-dead-instance", func() { _ = old.Stop(context.Background()) })
	w.S.Quiesce(0)
	w.Disk = img
	return w.Open()
}

// Restart is a clean restart: Stop, then either a new Store over the same datastore or - the Store
// supports it - Start on the very same object (whose queues, caches and registered handlers live on).
func (w *SW) Restart() error {
	if err := w.Stop(); err != nil {
		return fmt.Errorf("stop: %w", err)
	}
	if !w.S.Tape.Coin("restart-same-object", 1, 3) {
		return w.Open()
	}
	w.S.Probe("restart-of-the-same-store-object")
	var err error
	_, fin := w.S.Do("start-again", opBudget, func() { err = startStore(w.St) })
	if !fin {
		return errors.New("start: did not finish")
	}
	return err
}

func (w *SW) Stop() error {
	var err error
	_, fin := w.S.Do("stop", opBudget, func() { err = w.St.Stop(context.Background()) })
	if !fin {
		return errors.New("stop: did not finish")
	}
	return err
}

// do runs fn as a task with a generous virtual budget; a task that does not
// finish is reported as a hang of that operation.
func (w *SW) do(name string, fn func()) bool {
	t, fin := w.S.Do(name, opBudget, fn)
	if t.Panic != nil {
		w.S.Violate("panic", map[string]string{"op": opName(name)}, "%s panicked: %v\n%s", name, t.Panic, t.Stack)
		return false
	}
	if !fin {
		w.S.Violate("hang", map[string]string{"op": opName(name)}, "%s did not return within %v of virtual time", name, opBudget)
		return false
	}
	return true
}

func opName(n string) string {
	if i := strings.IndexAny(n, " (:"); i > 0 {
		return n[:i]
	}
	return n
}

func (w *SW) Append(hs ...*H) error {
	var err error
	w.do(fmt.Sprintf("append %d..%d", hs[0].Ht, hs[len(hs)-1].Ht), func() { err = w.St.Append(context.Background(), hs...) })
	return err
}

func (w *SW) Sync() error {
	var err error
	w.do("sync", func() { err = w.St.Sync(context.Background()) })
	return err
}

func (w *SW) Delete(from, to uint64) error {
	var err error
	w.do(fmt.Sprintf("delete [%d,%d)", from, to), func() { err = w.St.DeleteRange(context.Background(), from, to) })
	return err
}

// where reports where the header of height h currently lives on the raw disk.
func (w *SW) where(h uint64) string {
	x := w.Ch.At(h)
	var parts []string
	if x != nil {
		if _, ok := w.Disk.Raw(w.Prefix + "/" + x.Hash().String()); ok {
			parts = append(parts, "disk-hash")
		}
	}
	if _, ok := w.Disk.Raw(fmt.Sprintf("%s/%d", w.Prefix, h)); ok {
		parts = append(parts, "disk-index")
	}
	if len(parts) == 0 {
		return "not-on-disk"
	}
	return strings.Join(parts, "+")
}

// --- reference model ---------------------------------------------------------------

// StoreModel is the executable reference for C04/C06/C08/C17: a set of stored
// heights of the honest chain and the ends of the contiguous run.
type StoreModel struct {
	Has        map[uint64]bool
	Tail, Head uint64 // 0,0 = empty
}

// sortedHeights: oracles walk maps in key order. Every store call of an oracle is a sequence of park
// points (mechanically inserted ones included), so Go's random map order would make the log, the
// decision hash and - with several goroutines enabled - the tape alignment differ between processes.
func sortedHeights[V any](m map[uint64]V) []uint64 {
	ks := make([]uint64, 0, len(m))
	for k := range m {
		ks = append(ks, k)
	}
	sort.Slice(ks, func(i, j int) bool { return ks[i] < ks[j] })
	return ks
}

func newStoreModel() *StoreModel { return &StoreModel{Has: map[uint64]bool{}} }

func (m *StoreModel) Clone() *StoreModel {
	c := &StoreModel{Has: map[uint64]bool{}, Tail: m.Tail, Head: m.Head}
	for k := range m.Has {
		c.Has[k] = true
	}
	return c
}

func (m *StoreModel) Empty() bool { return m.Head == 0 }

// Append of the contiguous ascending run [from,to].
func (m *StoreModel) Append(from, to uint64) {
	for h := from; h <= to; h++ {
		m.Has[h] = true
	}
	if m.Empty() {
		m.Tail, m.Head = from, to
	}
	m.walk()
}

func (m *StoreModel) walk() {
	for m.Has[m.Head+1] {
		m.Head++
	}
	for m.Tail > 1 && m.Has[m.Tail-1] {
		m.Tail--
	}
}

// DeleteOK says whether C08 lets DeleteRange(from,to) through.
func (m *StoreModel) DeleteOK(from, to uint64) bool {
	if m.Empty() || from >= to {
		return false
	}
	if from == m.Tail && to <= m.Head+1 {
		return true
	}
	if to == m.Head+1 && from > m.Tail {
		return true
	}
	return false
}

func (m *StoreModel) Delete(from, to uint64) {
	for h := from; h < to; h++ {
		delete(m.Has, h)
	}
	switch {
	case from == m.Tail && to == m.Head+1:
		if m.Has[to] {
			// a stored header right above the deleted chain (left behind by a
			// head-side deletion that failed part-way) becomes the new chain:
			// the store documents that it does not wipe in this case
			m.Tail, m.Head = to, to
			m.walk()
		} else {
			m.Tail, m.Head = 0, 0
		}
	case from == m.Tail:
		m.Tail = to
	default:
		m.Head = from - 1
	}
}

func (m *StoreModel) Heights() []uint64 {
	hs := make([]uint64, 0, len(m.Has))
	for h := range m.Has {
		hs = append(hs, h)
	}
	sort.Slice(hs, func(i, j int) bool { return hs[i] < hs[j] })
	return hs
}

func (m *StoreModel) String() string {
	hs := m.Heights()
	var b strings.Builder
	fmt.Fprintf(&b, "tail=%d head=%d stored=", m.Tail, m.Head)
	for i := 0; i < len(hs); {
		j := i
		for j+1 < len(hs) && hs[j+1] == hs[j]+1 {
			j++
		}
		if i == j {
			fmt.Fprintf(&b, "[%d]", hs[i])
		} else {
			fmt.Fprintf(&b, "[%d..%d]", hs[i], hs[j])
		}
		i = j + 1
	}
	return b.String()
}

// --- the oracle shared by the store properties -----------------------------------------

func short(ctx context.Context) (context.Context, context.CancelFunc) {
	return context.WithTimeout(ctx, 50*time.Millisecond)
}

// checkStore compares the store's public API with the model after a Sync.
// It runs as a task (reads go through the simulated disk). prefix is the
// violation class prefix (property specific).
func (w *SW) checkStore(m *StoreModel, why string) {
	w.do("check "+why, func() { w.checkStoreIn(m, why) })
}

// peekStore checks, WITHOUT calling Sync, that at quiescence every appended
// header is readable wherever it currently sits (write batch, cache or disk)
// and that Head/Tail already describe the contiguous run.
func (w *SW) peekStore(m *StoreModel, why string) {
	w.do("peek "+why, func() {
		s, st, ch := w.S, w.St, w.Ch
		ctx := context.Background()
		for _, h := range m.Heights() {
			want := ch.At(h)
			wh := w.where(h)
			if wh == "not-on-disk" {
				s.Probe("read-from-write-batch")
			}
			got, err := st.GetByHeight(ctx, h)
			if err != nil || !simhdr.Equal(got, want) {
				s.Violate("stored-unreadable", map[string]string{"by": "height", "synced": "no"}, "[%s; %s; model %s] GetByHeight(%d)=%v,%v before Sync (raw: %s)", why, w.cfg(), m, h, got, err, wh)
				return
			}
			if g2, err := st.Get(ctx, want.Hash()); err != nil || !simhdr.Equal(g2, want) {
				s.Violate("stored-unreadable", map[string]string{"by": "hash", "synced": "no"}, "[%s; %s; model %s] Get(hash of %d)=%v,%v before Sync (raw: %s)", why, w.cfg(), m, h, g2, err, wh)
				return
			}
			if ok, err := st.Has(ctx, want.Hash()); !ok || err != nil {
				s.Violate("stored-unreadable", map[string]string{"by": "has", "synced": "no"}, "[%s; %s; model %s] Has(hash of %d)=%v,%v before Sync (raw: %s)", why, w.cfg(), m, h, ok, err, wh)
				return
			}
		}
		if !m.Empty() {
			head, herr := st.Head(ctx)
			tail, terr := st.Tail(ctx)
			if herr != nil || terr != nil || head.Height() != m.Head || tail.Height() != m.Tail {
				s.Violate("ends-mismatch", map[string]string{"kind": "quiescent-unsynced"}, "[%s; %s; model %s] at quiescence before Sync Head=%v(%v) Tail=%v(%v)", why, w.cfg(), m, head, herr, tail, terr)
			}
		}
	})
}

func (w *SW) checkStoreIn(m *StoreModel, why string) {
	s, st, ch := w.S, w.St, w.Ch
	ctx := context.Background()
	bad := func(class string, attrs map[string]string, f string, a ...any) {
		s.Violate(class, attrs, "[%s; %s; model %s] "+f, append([]any{why, w.cfg(), m.String()}, a...)...)
	}
	if err := st.Sync(ctx); err != nil {
		bad("sync-error", nil, "Sync: %v", err)
		return
	}
	head, herr := st.Head(ctx)
	tail, terr := st.Tail(ctx)
	if m.Empty() {
		if herr == nil || terr == nil {
			bad("ends-mismatch", map[string]string{"kind": "nonempty-after-wipe"}, "model empty but Head=%v(%v) Tail=%v(%v)", head, herr, tail, terr)
		}
	} else {
		if herr != nil || terr != nil {
			bad("ends-mismatch", map[string]string{"kind": "error"}, "Head err=%v Tail err=%v", herr, terr)
			return
		}
		if head.Height() != m.Head || !ch.Is(head) {
			bad("ends-mismatch", map[string]string{"kind": "head"}, "Head()=%v want height %d", head, m.Head)
		}
		if tail.Height() != m.Tail || !ch.Is(tail) {
			bad("ends-mismatch", map[string]string{"kind": "tail"}, "Tail()=%v want height %d", tail, m.Tail)
		}
		if tail.Height() > head.Height() {
			bad("ends-mismatch", map[string]string{"kind": "tail>head"}, "Tail %d > Head %d", tail.Height(), head.Height())
		}
		if st.Height() != head.Height() {
			bad("height-mismatch", nil, "Height()=%d but Head().Height()=%d", st.Height(), head.Height())
		}
	}
	if s.Failed() {
		return
	}
	// every height around and inside the model
	lo, hi := uint64(1), uint64(0)
	hs := m.Heights()
	if len(hs) > 0 {
		lo, hi = hs[0], hs[len(hs)-1]
	}
	if lo > 2 {
		lo -= 2
	} else {
		lo = 1
	}
	hi += 2
	if lo < ch.First {
		lo = ch.First
	}
	for h := lo; h <= hi && !s.Failed(); h++ {
		want := ch.At(h)
		inRange := !m.Empty() && h >= m.Tail && h <= m.Head
		if got := st.HasAt(ctx, h); got != inRange {
			bad("hasat-mismatch", nil, "HasAt(%d)=%v want %v", h, got, inRange)
		}
		if m.Has[h] {
			got, err := st.GetByHeight(ctx, h)
			if err != nil || !simhdr.Equal(got, want) {
				bad("stored-unreadable", map[string]string{"by": "height"}, "GetByHeight(%d)=%v,%v (raw: %s)", h, got, err, w.where(h))
				continue
			}
			g2, err := st.Get(ctx, want.Hash())
			if err != nil || !simhdr.Equal(g2, want) {
				bad("stored-unreadable", map[string]string{"by": "hash"}, "Get(hash of %d)=%v,%v (raw: %s)", h, g2, err, w.where(h))
			}
			if ok, err := st.Has(ctx, want.Hash()); !ok || err != nil {
				bad("stored-unreadable", map[string]string{"by": "has"}, "Has(hash of %d)=%v,%v (raw: %s)", h, ok, err, w.where(h))
			}
		} else {
			c2, cancel := short(ctx)
			got, err := st.GetByHeight(c2, h)
			cancel()
			if err == nil {
				bad("absent-readable", map[string]string{"by": "height"}, "GetByHeight(%d)=%v but it is not stored (raw: %s)", h, got, w.where(h))
			} else if h <= st.Height() && !errors.Is(err, header.ErrNotFound) {
				bad("absent-wrong-error", nil, "GetByHeight(%d) below Height()=%d: %v, want ErrNotFound", h, st.Height(), err)
			}
			if g2, err := st.Get(ctx, want.Hash()); err == nil {
				bad("absent-readable", map[string]string{"by": "hash"}, "Get(hash of %d)=%v but it is not stored (raw: %s)", h, g2, w.where(h))
			}
			if ok, _ := st.Has(ctx, want.Hash()); ok {
				bad("absent-readable", map[string]string{"by": "has"}, "Has(hash of %d)=true but it is not stored (raw: %s)", h, w.where(h))
			}
			if wh := w.where(h); wh != "not-on-disk" {
				bad("absent-on-disk", map[string]string{"raw": wh}, "height %d is not stored but the raw datastore still has %s", h, wh)
			}
		}
	}
	if s.Failed() || m.Empty() {
		return
	}
	// ranges inside [Tail,Head] must come back exactly; any nil-error result
	// must be exactly the requested consecutive heights.
	for i := 0; i < 4; i++ {
		a := m.Tail + uint64(s.Tape.Draw("rng-a", int(m.Head-m.Tail+1)))
		b := a + 1 + uint64(s.Tape.Draw("rng-n", int(m.Head-a+1)))
		w.checkRange(m, a, b, bad)
	}
}

func (w *SW) checkRange(m *StoreModel, a, b uint64, bad func(string, map[string]string, string, ...any)) {
	ctx, cancel := short(context.Background())
	defer cancel()
	exact := func(got []*H, from, to uint64) bool {
		if uint64(len(got)) != to-from {
			return false
		}
		for i, g := range got {
			if !simhdr.Equal(g, w.Ch.At(from+uint64(i))) {
				return false
			}
		}
		return true
	}
	got, err := w.St.GetRange(ctx, a, b)
	if err != nil {
		bad("range-error", map[string]string{"op": "GetRange"}, "GetRange(%d,%d) inside [Tail,Head]: %v", a, b, err)
	} else if !exact(got, a, b) {
		bad("range-wrong", map[string]string{"op": "GetRange"}, "GetRange(%d,%d) returned %v", a, b, got)
	}
	if a > w.Ch.First && b > a {
		from := w.Ch.At(a - 1)
		got, err = w.St.GetRangeByHeight(ctx, from, b)
		if err != nil {
			bad("range-error", map[string]string{"op": "GetRangeByHeight"}, "GetRangeByHeight(%d,%d): %v", a-1, b, err)
		} else if !exact(got, a, b) {
			bad("range-wrong", map[string]string{"op": "GetRangeByHeight"}, "GetRangeByHeight(%d,%d) returned %v", a-1, b, got)
		}
	}
}

// startStore starts a Store with a context that is good for the Start call only and is
// cancelled as soon as Start has returned, as a lifecycle hook with a start timeout does.
func startStore(st *store.Store[*H]) error {
	ctx, cancel := context.WithCancel(context.Background())
	defer cancel()
	return st.Start(ctx)
}
