package props

import (
	"context"

	header "github.com/celestiaorg/go-header"
	"github.com/celestiaorg/go-header/store"

	"verifsim/core"
)

// ParkStore is the seam between the Syncer and its Store: the real store.Store behind
// header.Store, with a scheduler park point before and after every call the Syncer makes.
// It adds no behaviour of its own; it only lets the simulator interleave other tasks (the sync
// loop, gossip deliveries, Head() callers) between two consecutive reads or writes the Syncer
// does - places where the code itself has no yield hook.
type ParkStore struct {
	S  *core.Sim
	St *store.Store[*H]
}

func (p *ParkStore) park(op string) { p.S.Yield("store-call:" + op) }

func (p *ParkStore) Head(ctx context.Context, o ...header.HeadOption[*H]) (*H, error) {
	p.park("Head")
	h, err := p.St.Head(ctx, o...)
	p.park("Head:done")
	return h, err
}

func (p *ParkStore) Tail(ctx context.Context) (*H, error) {
	p.park("Tail")
	h, err := p.St.Tail(ctx)
	p.park("Tail:done")
	return h, err
}

func (p *ParkStore) Height() uint64 {
	p.park("Height")
	h := p.St.Height()
	p.park("Height:done")
	return h
}

func (p *ParkStore) Get(ctx context.Context, hash header.Hash) (*H, error) {
	p.park("Get")
	h, err := p.St.Get(ctx, hash)
	p.park("Get:done")
	return h, err
}

func (p *ParkStore) GetByHeight(ctx context.Context, height uint64) (*H, error) {
	p.park("GetByHeight")
	h, err := p.St.GetByHeight(ctx, height)
	p.park("GetByHeight:done")
	return h, err
}

func (p *ParkStore) GetRangeByHeight(ctx context.Context, from *H, to uint64) ([]*H, error) {
	p.park("GetRangeByHeight")
	hs, err := p.St.GetRangeByHeight(ctx, from, to)
	p.park("GetRangeByHeight:done")
	return hs, err
}

func (p *ParkStore) GetRange(ctx context.Context, from, to uint64) ([]*H, error) {
	p.park("GetRange")
	hs, err := p.St.GetRange(ctx, from, to)
	p.park("GetRange:done")
	return hs, err
}

func (p *ParkStore) Has(ctx context.Context, hash header.Hash) (bool, error) {
	p.park("Has")
	ok, err := p.St.Has(ctx, hash)
	p.park("Has:done")
	return ok, err
}

func (p *ParkStore) HasAt(ctx context.Context, height uint64) bool {
	p.park("HasAt")
	ok := p.St.HasAt(ctx, height)
	p.park("HasAt:done")
	return ok
}

func (p *ParkStore) Append(ctx context.Context, hs ...*H) error {
	p.park("Append")
	err := p.St.Append(ctx, hs...)
	p.park("Append:done")
	return err
}

func (p *ParkStore) DeleteRange(ctx context.Context, from, to uint64) error {
	p.park("DeleteRange")
	err := p.St.DeleteRange(ctx, from, to)
	p.park("DeleteRange:done")
	return err
}

func (p *ParkStore) OnDelete(fn func(ctx context.Context, height uint64) error) { p.St.OnDelete(fn) }

var _ header.Store[*H] = (*ParkStore)(nil)
