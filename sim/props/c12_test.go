package props

import (
	"context"
	"errors"
	"fmt"
	"sync"
	"time"

	header "github.com/celestiaorg/go-header"

	"verifsim/core"
	"verifsim/simhdr"
)

// C12 - GetByHeight waits for a future height and wakes once that header is stored.
func init() {
	register(&Scenario{ID: "C12", World: "S", Hooks: true, Run: runC12})
}

type c12reader struct {
	id       int
	h        uint64
	ctx      context.Context
	cancel   context.CancelFunc
	task     *core.Task
	got      *H
	err      error
	startV   time.Duration
	endV     time.Duration
	canceled bool
	heightAt uint64 // Height() when the call was issued
	heightRt uint64 // Height() when the call returned
}

func runC12(s *core.Sim, tier string) RunInfo {
	w := newSW(s, false)
	w.Disk.Park = s.Tape.Coin("park-disk", 1, 2)
	s.SchedDen = core.Pick(s.Tape, "sched-den", []int{1, 2, 3, 6})
	m := w.M
	var hist []string
	info := func() RunInfo {
		return RunInfo{Nontrivial: s.Preempts > 0, StateKey: w.cfg() + fmt.Sprint(hist), Evals: 1,
			Sample: map[string]any{"config": w.cfg(), "plan": hist, "preemptions": s.Preempts}}
	}
	if err := w.Open(); err != nil {
		s.Violate("start-error", nil, "Start: %v", err)
		return info()
	}
	defer func() {
		w.S.Go("final-stop", func() { _ = w.St.Stop(ctxBG()) })
		w.S.Quiesce(0)
	}()
	first := w.Ch.First
	// initial chain first..first+k-1 (k may be 0), optionally pruned at the tail
	k := uint64(s.Tape.Draw("initial", 6))
	if k > 0 {
		if err := w.Append(w.Ch.Range(first, first+k-1)...); err != nil {
			s.Violate("append-error", nil, "%v", err)
			return info()
		}
		m.Append(first, first+k-1)
		_ = w.Sync()
		hist = append(hist, fmt.Sprintf("initial %d..%d", first, first+k-1))
		if k >= 3 && s.Tape.Coin("prune", 1, 3) {
			if err := w.Delete(first, first+1); err == nil {
				m.Delete(first, first+1)
				hist = append(hist, "pruned tail")
			}
		}
	}
	top := first + k // first height not stored
	if k >= 1 && s.Tape.Coin("waiters-across-wipe-or-restart", 1, 5) {
		runC12Lifecycle(s, w, first, top, &hist)
		return info()
	}
	// --- plan writers: runs placed relative to `top`
	// a run is handed to the Store in one Append call: all of from..to in ascending order, or
	// only its two ends (a gap inside one call), or those two highest first
	type run struct {
		from, to uint64
		shape    string
	}
	hdrs := func(r run) []*H {
		switch {
		case r.shape == "ends" && r.to > r.from:
			return []*H{w.Ch.At(r.from), w.Ch.At(r.to)}
		case r.shape == "ends-reversed" && r.to > r.from:
			return []*H{w.Ch.At(r.to), w.Ch.At(r.from)}
		}
		return w.Ch.Range(r.from, r.to)
	}
	nw := 1 + s.Tape.Draw("writers", 2)
	plans := make([][]run, nw)
	var invMu sync.Mutex
	invokedM := map[uint64]bool{}
	setInvoked := func(h uint64) { invMu.Lock(); invokedM[h] = true; invMu.Unlock() }
	wasInvoked := func(h uint64) bool { invMu.Lock(); defer invMu.Unlock(); return invokedM[h] }
	planned := map[uint64]bool{}
	for wi := 0; wi < nw; wi++ {
		n := 1 + s.Tape.Draw("runs", 3)
		for j := 0; j < n; j++ {
			off := uint64(s.Tape.Draw("run-off", 7)) // 0 = contiguous with the initial chain
			ln := uint64(1 + s.Tape.Draw("run-len", 3))
			r := run{from: top + off, to: top + off + ln - 1}
			if k >= 1 { // (the first Append to an empty store defines its tail and head by position)
				r.shape = core.Pick(s.Tape, "run-shape", []string{"", "", "", "ends", "ends-reversed"})
			}
			plans[wi] = append(plans[wi], r)
			for _, h := range hdrs(r) {
				planned[h.Height()] = true
			}
		}
		hist = append(hist, fmt.Sprintf("writer%d %v", wi, plans[wi]))
	}
	// --- readers
	nr := 1 + s.Tape.Draw("readers", 3)
	readers := make([]*c12reader, nr)
	for i := range readers {
		var h uint64
		switch core.Pick(s.Tape, "target", []string{"future", "future", "future", "stored", "pruned"}) {
		case "future":
			h = top + uint64(s.Tape.Draw("target-off", 9))
		case "stored":
			if k == 0 {
				h = top
			} else {
				h = first + uint64(s.Tape.Draw("stored-h", int(k)))
			}
		case "pruned":
			h = first
			if k == 0 {
				h = top + 1
			}
		}
		if i > 0 && s.Tape.Coin("same-target", 1, 2) {
			h = readers[0].h // several waiters on one height
		}
		ctx, cancel := context.WithTimeout(context.Background(), time.Hour)
		readers[i] = &c12reader{id: i, h: h, ctx: ctx, cancel: cancel}
		hist = append(hist, fmt.Sprintf("reader%d wants %d", i, h))
	}
	// --- start everything; the scheduler interleaves at disk ops and hooks
	var tasks []*core.Task
	for _, r := range readers {
		r := r
		r.task = s.Go(fmt.Sprintf("reader%d(%d)", r.id, r.h), func() {
			r.startV = s.Now()
			r.heightAt = w.St.Height()
			r.got, r.err = w.St.GetByHeight(r.ctx, r.h)
			r.heightRt = w.St.Height()
			r.endV = s.Now()
		})
	}
	// some writers ask for a Sync right after their appends, while these may still be queued
	syncAfter := make([]bool, nw)
	for wi := range syncAfter {
		syncAfter[wi] = s.Tape.Coin("writer-syncs", 1, 3)
	}
	for wi := range plans {
		wi := wi
		tasks = append(tasks, s.Go(fmt.Sprintf("writer%d", wi), func() {
			defer func() {
				if syncAfter[wi] {
					_ = w.St.Sync(context.Background())
				}
			}()
			for _, r := range plans[wi] {
				for _, h := range hdrs(r) {
					setInvoked(h.Height())
				}
				if err := w.St.Append(context.Background(), hdrs(r)...); err != nil {
					s.Violate("append-error", nil, "Append(%d..%d): %v", r.from, r.to, err)
				}
			}
		}))
	}
	// cancellers: cancel some readers at a scheduler-chosen moment
	for _, r := range readers {
		if s.Tape.Coin("cancel", 1, 4) {
			r := r
			hist = append(hist, fmt.Sprintf("canceller for reader%d", r.id))
			tasks = append(tasks, s.Go(fmt.Sprintf("cancel%d", r.id), func() {
				r.canceled = true
				r.cancel()
				s.Fault("reader-context-cancelled")
			}))
		}
	}
	if stuck := s.Settle(10*time.Minute, tasks...); len(stuck) > 0 && !s.Failed() {
		s.Violate("hang", map[string]string{"op": "Append"}, "writer/canceller tasks did not finish: %v", stuck[0].Name)
		return info()
	}
	// make everything the writers appended visible, then let things settle
	if _, fin := s.Do("sync", 10*time.Minute, func() { _ = w.St.Sync(context.Background()) }); !fin {
		s.Violate("hang", map[string]string{"op": "Sync"}, "Sync did not return")
		return info()
	}
	s.Quiesce(time.Second)
	if s.Failed() {
		return info()
	}
	for h := range planned {
		m.Has[h] = true
	}
	// --- oracle
	for _, r := range readers {
		at := map[string]string{}
		if !r.task.Done {
			if r.canceled {
				s.Violate("cancel-did-not-release", at, "reader for %d still blocked after its context was cancelled [%s; plan %v]", r.h, w.cfg(), hist)
				break
			}
			if m.Has[r.h] {
				s.Probe("blocked-although-stored")
				s.Violate("lost-wakeup", map[string]string{"contiguous": fmt.Sprint(r.h <= w.St.Height())}, "GetByHeight(%d) is still blocked at quiescence although the header has been appended and synced (Height()=%d, Height at call=%d) [%s; plan %v]", r.h, w.St.Height(), r.heightAt, w.cfg(), hist)
				break
			}
			// legitimately waiting for a header nobody appended: cancelling must release it at once
			s.Probe("reader-still-waiting")
			t0 := s.Now()
			r.cancel()
			if stuck := s.Settle(0, r.task); len(stuck) > 0 {
				s.Violate("cancel-did-not-release", at, "reader for %d not released by cancelling its context", r.h)
				break
			}
			if s.Now() != t0 {
				s.Violate("cancel-not-prompt", at, "reader for %d needed %v of virtual time after cancel", r.h, s.Now()-t0)
			}
			if r.err == nil || !errors.Is(r.err, context.Canceled) {
				s.Violate("cancel-wrong-result", at, "reader for %d after cancel: %v, %v", r.h, r.got, r.err)
			}
			continue
		}
		if r.task.Panic != nil {
			s.Violate("panic", map[string]string{"op": "GetByHeight"}, "GetByHeight(%d) panicked: %v\n%s", r.h, r.task.Panic, r.task.Stack)
			break
		}
		switch {
		case r.err == nil:
			if !simhdr.Equal(r.got, w.Ch.At(r.h)) || r.got.Height() != r.h {
				s.Violate("wrong-header", at, "GetByHeight(%d) returned %v", r.h, r.got)
			} else if !wasInvoked(r.h) && !(r.h >= first && r.h < top) {
				s.Violate("unappended-header", at, "GetByHeight(%d) returned a header nobody appended", r.h)
			}
			s.Probe("reader-got-header")
		case r.canceled && (errors.Is(r.err, context.Canceled)):
			s.Probe("reader-cancelled")
		case errors.Is(r.err, header.ErrNotFound):
			// allowed only for a height at or below Height that is not stored: Height
			// must have reached h by the time of the answer, and the header must not
			// have been part of the initial (synced, unpruned) chain
			if r.heightRt < r.h {
				s.Violate("notfound-above-height", at, "GetByHeight(%d) returned ErrNotFound while Height()=%d [%s; plan %v]", r.h, r.heightRt, w.cfg(), hist)
			}
			if r.h >= first && r.h < top && !(len(hist) > 1 && hist[1] == "pruned tail" && r.h == first) {
				s.Violate("notfound-for-stored", at, "GetByHeight(%d) returned ErrNotFound for a header of the initial chain [%s; plan %v]", r.h, w.cfg(), hist)
			}
			if r.endV != r.startV {
				s.Violate("notfound-not-prompt", at, "GetByHeight(%d) took %v of virtual time to say ErrNotFound", r.h, r.endV-r.startV)
			}
			s.Probe("reader-notfound")
		default:
			s.Violate("unexpected-error", at, "GetByHeight(%d) (canceled=%v): %v", r.h, r.canceled, r.err)
		}
	}
	for _, r := range readers {
		r.cancel()
	}
	return info()
}

// runC12Lifecycle: readers are already waiting for a height when the store is emptied by a
// whole-chain deletion, or stopped and started again (the same object); the height is appended
// afterwards. They are still owed the header.
func runC12Lifecycle(s *core.Sim, w *SW, first, top uint64, hist *[]string) {
	target := top + uint64(s.Tape.Draw("target-off", 4))
	type waiter struct {
		got *H
		err error
		t   *core.Task
	}
	nr := 1 + s.Tape.Draw("readers", 2)
	ws := make([]*waiter, nr)
	rctx, rcancel := context.WithTimeout(context.Background(), time.Hour)
	defer func() { rcancel(); s.Quiesce(0) }() // nobody is left waiting when the run ends
	for i := range ws {
		wt := &waiter{}
		ws[i] = wt
		wt.t = s.Go(fmt.Sprintf("reader%d", i), func() {
			wt.got, wt.err = w.St.GetByHeight(rctx, target)
		})
	}
	first = w.M.Tail       // (the tail may have been pruned already)
	s.Quiesce(time.Second) // they are subscribed and waiting now
	event := core.Pick(s.Tape, "lifecycle-event", []string{"wipe", "restart"})
	*hist = append(*hist, fmt.Sprintf("%d readers wait for %d; then %s; then append %d..%d", nr, target, event, top, target))
	switch event {
	case "wipe":
		if err := w.Delete(first, top); err != nil {
			s.Violate("delete-rejected", map[string]string{"range": "whole"}, "DeleteRange(%d,%d) of the whole chain: %v", first, top, err)
			return
		}
	case "restart":
		if err := w.Stop(); err != nil {
			s.Violate("stop-error", nil, "Stop: %v", err)
			return
		}
		var err error
		if _, fin := s.Do("start-again", opBudget, func() { err = startStore(w.St) }); !fin || err != nil {
			s.Violate("start-error", map[string]string{"same": "object"}, "Start of the same object: finished=%v err=%v", fin, err)
			return
		}
	}
	s.Probe("waiters-across-" + event)
	// (the awaited height is the last one of the batch, or somewhere inside it)
	upTo := target + uint64(core.Pick(s.Tape, "batch-beyond-target", []int{0, 0, 1, 3}))
	if err := w.Append(w.Ch.Range(top, upTo)...); err != nil {
		s.Violate("append-error", nil, "Append(%d..%d): %v", top, upTo, err)
		return
	}
	if err := w.Sync(); err != nil {
		s.Violate("sync-error", nil, "Sync: %v", err)
		return
	}
	var tasks []*core.Task
	for _, wt := range ws {
		tasks = append(tasks, wt.t)
	}
	stuck := s.Settle(10*time.Minute, tasks...)
	for i, wt := range ws {
		if wt.t.Panic != nil {
			s.Violate("panic", map[string]string{"op": "GetByHeight"}, "reader panicked: %v", wt.t.Panic)
			return
		}
		blocked := false
		for _, st := range stuck {
			if st == wt.t {
				blocked = true
			}
		}
		if blocked || wt.err != nil || !simhdr.Equal(wt.got, w.Ch.At(target)) {
			s.Violate("lost-wakeup", map[string]string{"across": event}, "reader%d was waiting for height %d when the store was %s; %d..%d were appended and synced afterwards, but the reader: blocked=%v got=%v err=%v [%s]", i, target, map[string]string{"wipe": "emptied by a whole-chain deletion", "restart": "stopped and started again"}[event], top, upTo, blocked, wt.got, wt.err, w.cfg())
			return
		}
	}
}
