package props

import (
	"runtime"
	"encoding/json"
	"fmt"
	"hash/fnv"
	"os"
	"runtime/debug"
	"sort"
	"strconv"
	"strings"
	"testing"
	"testing/synctest"
	"time"

	"verifsim/core"
)

// Scenario is one property's simulated check: a workload + oracle executed on
// the root goroutine of a synctest bubble.
type Scenario struct {
	ID    string
	World string
	// Hooks enables the verif-tagged scheduling points inside go-header.
	Hooks bool
	// Run executes one simulated run. It reports findings through
	// sim.Violate and returns descriptive info for evidence.
	Run func(s *core.Sim, tier string) RunInfo
}

type RunInfo struct {
	Nontrivial bool   // by the property's stated rule
	StateKey   string // abstract description hashed into "distinct states"
	Sample     any    // human-readable case description
	Evals      int    // oracle evaluations / sub-cases inside this run (>=1)
}

var scenarios = map[string]*Scenario{}

func register(sc *Scenario) { scenarios[sc.ID] = sc }

// Result of one run.
type Result struct {
	Seed      uint64
	Info      RunInfo
	Viol      []core.Violation
	Aborted   string
	Faults    map[string]int
	Probes    map[string]int
	Steps     int
	Preempts  int
	VirtualNS int64
	DecHash   uint64
	LogHash   uint64
	Tape      []uint32
	Trace     []string
	Leaked    bool
	PanicText string
}

// runOne executes the scenario once inside a fresh bubble.
func runOne(t *testing.T, sc *Scenario, tape *core.Tape, tier string) (res Result) {
	res.Seed = tape.Seed()
	defer func() {
		if r := recover(); r != nil {
			msg := fmt.Sprint(r)
			if strings.Contains(msg, "deadlock") && strings.Contains(msg, "bubble") {
				res.Leaked = true
				if os.Getenv("VERIF_DEBUG") == "1" {
					buf := make([]byte, 1<<20)
					n := runtime.Stack(buf, true)
					fmt.Fprintf(os.Stderr, "LEAKED BUBBLE seed=%d: %s\n%s\n", res.Seed, msg, buf[:n])
				}
				return
			}
			res.PanicText = msg + "\n" + string(debug.Stack())
		}
	}()
	synctest.Test(t, func(t *testing.T) {
		sim := core.NewSim(tape)
		if sc.World == "S" || sc.World == "Y" || sc.World == "X" {
			// which of the mechanically inserted park points (locks, atomics) are live in this run
			switch tape.Draw("auto-yield", 4) {
			case 2:
				sim.AutoMode, sim.AutoSalt = 1, uint64(tape.Draw("auto-salt", 1<<16))
			case 3:
				sim.AutoMode = 2
			}
		}
		installHooks(sim, sc.Hooks)
		defer installHooks(nil, false)
		func() {
			defer func() {
				if r := recover(); r != nil {
					// a panic of the scenario code itself is harness trouble, never a violation
					sim.Aborted = fmt.Sprintf("scenario panicked on root goroutine: %v\n%s", r, debug.Stack())
					res.PanicText = fmt.Sprint(r)
				}
			}()
			res.Info = sc.Run(sim, tier)
		}()
		sim.Drain()
		synctest.Wait()
		res.Viol = sim.Violations
		res.Aborted = sim.Aborted
		res.Faults = sim.Faults
		res.Probes = sim.Probes
		if n := sim.AutoHits(); n > 0 {
			res.Probes["auto-park-points-taken"] += n
		}
		res.Steps = sim.Steps
		res.Preempts = sim.Preempts
		res.VirtualNS = int64(sim.Now())
		res.DecHash = sim.DecisionHash()
		res.LogHash = sim.Log.Hash()
		res.Trace = sim.Log.Lines()
		res.Tape = append([]uint32(nil), tape.Rec...)
	})
	return res
}

func firstKey(r Result) string {
	if len(r.Viol) == 0 {
		return ""
	}
	return r.Viol[0].Key()
}

// --- known findings ------------------------------------------------------------

type knownFinding struct {
	Property string            `json:"property"`
	ID       string            `json:"id"`
	Status   string            `json:"status"` // known | fixed
	Class    string            `json:"class"`
	Match    map[string]string `json:"match"`
	What     string            `json:"what"`
	Commit   string            `json:"commit,omitempty"`
}

func loadKnown(path, prop string) []knownFinding {
	b, err := os.ReadFile(path)
	if err != nil {
		return nil
	}
	var f struct {
		Findings []knownFinding `json:"findings"`
	}
	if json.Unmarshal(b, &f) != nil {
		return nil
	}
	var out []knownFinding
	for _, k := range f.Findings {
		if k.Property == prop && k.Status == "known" {
			out = append(out, k)
		}
	}
	return out
}

func matchKnown(ks []knownFinding, v core.Violation) *knownFinding {
	for i := range ks {
		k := &ks[i]
		if k.Class != v.Class {
			continue
		}
		ok := true
		for a, want := range k.Match {
			if v.Attrs[a] != want {
				ok = false
			}
		}
		if ok {
			return k
		}
	}
	return nil
}

// --- replay files ----------------------------------------------------------------

type ReplayFile struct {
	Property string         `json:"property"`
	World    string         `json:"world"`
	Seed     uint64         `json:"seed"`
	Tier     string         `json:"tier"`
	Tape     []uint32       `json:"tape"`
	Expect   core.Violation `json:"expect"`
	Key      string         `json:"violation_key"`
	OrigLen  int            `json:"original_tape_len"`
	Shrunk   int            `json:"shrink_runs"`
	Trace    []string       `json:"trace"`
	Sample   any            `json:"case,omitempty"`
	RepoRev  string         `json:"repo_rev,omitempty"`
}

// --- worker ------------------------------------------------------------------------

type WorkerOut struct {
	Property    string                    `json:"property"`
	Runs        int                       `json:"runs"`
	Evals       int                       `json:"evals"`
	Nontrivial  int                       `json:"nontrivial"`
	DistinctNT  []uint64                  `json:"distinct_nontrivial_hashes"`
	DistinctDec []uint64                  `json:"distinct_decision_hashes"`
	DistinctSt  []uint64                  `json:"distinct_state_hashes"`
	Faults      map[string]int            `json:"faults"`
	Probes      map[string]int            `json:"probes"`
	Steps       int                       `json:"steps"`
	Preempts    int                       `json:"preempts"`
	VirtualNS   int64                     `json:"virtual_ns"`
	WallS       float64                   `json:"wall_s"`
	Samples     []any                     `json:"samples"`
	Violations  []ReplayFile              `json:"violations"`
	ViolCount   int                       `json:"violation_count"`
	Known       map[string]int            `json:"known"`
	KnownWhat   map[string]string         `json:"known_what"`
	Aborted     []string                  `json:"aborted"`
	Leaks       int                       `json:"leaks"`
	LeakSeeds   []uint64                  `json:"leak_seeds"`
	Seeds       []uint64                  `json:"first_seeds"`
	LogHashes   map[string]string         `json:"log_hashes,omitempty"`
	ExtraCounts map[string]map[string]int `json:"extra,omitempty"`
}

func envInt(k string, def int) int {
	if v := os.Getenv(k); v != "" {
		if n, err := strconv.Atoi(v); err == nil {
			return n
		}
	}
	return def
}

func envU64(k string, def uint64) uint64 {
	if v := os.Getenv(k); v != "" {
		if n, err := strconv.ParseUint(v, 10, 64); err == nil {
			return n
		}
	}
	return def
}

func hashStr(s string) uint64 { h := fnv.New64a(); h.Write([]byte(s)); return h.Sum64() }

// TestWorker is the entry point used by /verif/bin/check. Environment:
//
//	VERIF_PROP   property id            VERIF_TIER  quick|thorough
//	VERIF_SEED   base seed              VERIF_FROM/VERIF_TO run index range
//	VERIF_WALL_S wall budget (seconds)  VERIF_OUT   output json
//	VERIF_PROGRESS progress file        VERIF_REPLAY replay file (single run)
//	VERIF_KNOWN  known_findings.json    VERIF_REPLAY_DIR where to put replays
//	VERIF_HASHLOG=1 record per-run log hashes (determinism self-test)
func TestWorker(t *testing.T) {
	prop := os.Getenv("VERIF_PROP")
	if prop == "" {
		t.Skip("VERIF_PROP not set")
	}
	sc := scenarios[prop]
	if sc == nil {
		fmt.Printf("HARNESS-ERROR unknown property %q\n", prop)
		os.Exit(2)
	}
	tier := os.Getenv("VERIF_TIER")
	if tier == "" {
		tier = "quick"
	}
	if rp := os.Getenv("VERIF_REPLAY"); rp != "" {
		replayMain(t, sc, rp)
		return
	}
	if os.Getenv("VERIF_TRACE") == "1" {
		core.TraceOut = os.Stdout
	}
	base := envU64("VERIF_SEED", 1)
	from, to := envInt("VERIF_FROM", 0), envInt("VERIF_TO", 100)
	wall := time.Duration(envInt("VERIF_WALL_S", 3600)) * time.Second
	known := loadKnown(os.Getenv("VERIF_KNOWN"), prop)
	hashlog := os.Getenv("VERIF_HASHLOG") == "1"
	var progress *os.File
	if p := os.Getenv("VERIF_PROGRESS"); p != "" {
		progress, _ = os.OpenFile(p, os.O_CREATE|os.O_WRONLY|os.O_TRUNC, 0o644)
	}
	out := WorkerOut{Property: prop, Faults: map[string]int{}, Probes: map[string]int{}, Known: map[string]int{}, KnownWhat: map[string]string{}}
	if hashlog {
		out.LogHashes = map[string]string{}
	}
	nt, dec, st := map[uint64]bool{}, map[uint64]bool{}, map[uint64]bool{}
	t0 := time.Now()
	shrunk := 0
	for r := from; r < to; r++ {
		if time.Since(t0) > wall {
			break
		}
		seed := core.DeriveSeed(base, prop, uint64(r))
		if raw := os.Getenv("VERIF_RAW_SEED"); raw != "" {
			// diagnosis: run exactly this derived seed (as printed for aborted / leaked runs), once
			seed, _ = strconv.ParseUint(raw, 10, 64)
			to = r + 1
		}
		if progress != nil {
			fmt.Fprintf(progress, "BEGIN %d %d\n", r, seed)
		}
		tape := core.NewTape(seed)
		if ts := os.Getenv("VERIF_TAPE_STREAM"); ts != "" {
			if f, err := os.OpenFile(ts, os.O_CREATE|os.O_WRONLY|os.O_TRUNC, 0o644); err == nil {
				tape.Stream = f
			}
		}
		res := runOne(t, sc, tape, tier)
		if progress != nil {
			fmt.Fprintf(progress, "END %d\n", r)
		}
		out.Runs++
		ev := res.Info.Evals
		if ev < 1 {
			ev = 1
		}
		out.Evals += ev
		out.Steps += res.Steps
		out.Preempts += res.Preempts
		out.VirtualNS += res.VirtualNS
		for k, v := range res.Faults {
			out.Faults[k] += v
		}
		for k, v := range res.Probes {
			out.Probes[k] += v
		}
		if len(out.Seeds) < 8 {
			out.Seeds = append(out.Seeds, seed)
		}
		if hashlog {
			out.LogHashes[strconv.Itoa(r)] = fmt.Sprintf("%x/%x/%d", res.LogHash, res.DecHash, len(res.Viol))
		}
		dec[res.DecHash] = true
		sh := hashStr(res.Info.StateKey)
		st[sh] = true
		if res.Info.Nontrivial {
			out.Nontrivial++
			nt[hashStr(fmt.Sprintf("%x|%x", res.DecHash, sh))] = true
		}
		if len(out.Samples) < 3 && res.Info.Sample != nil {
			out.Samples = append(out.Samples, map[string]any{"seed": seed, "case": res.Info.Sample, "trace_head": head(res.Trace, 25)})
		}
		if res.Leaked {
			out.Leaks++
			out.LeakSeeds = append(out.LeakSeeds, seed)
		}
		if res.Aborted != "" {
			out.Aborted = append(out.Aborted, fmt.Sprintf("seed %d: %s", seed, res.Aborted))
		}
		if res.PanicText != "" && len(res.Viol) == 0 {
			out.Aborted = append(out.Aborted, fmt.Sprintf("seed %d: harness panic: %s", seed, res.PanicText))
		}
		if len(res.Viol) == 0 {
			continue
		}
		v := res.Viol[0]
		if k := matchKnown(known, v); k != nil {
			out.Known[k.ID]++
			out.KnownWhat[k.ID] = k.What
			continue
		}
		out.ViolCount++
		if shrunk >= 2 || os.Getenv("VERIF_NOSHRINK") == "1" {
			continue
		}
		shrunk++
		// keep the unshrunk failure on disk first: a shrink candidate may kill the process
		writeReplay(sc, tier, seed, res.Tape, firstKey(res), res, len(res.Tape), 0)
		if progress != nil {
			fmt.Fprintf(progress, "SHRINK %d %d\n", r, seed)
		}
		rf := minimise(t, sc, tier, seed, res)
		if progress != nil {
			fmt.Fprintf(progress, "SHRUNK %d\n", r)
		}
		out.Violations = append(out.Violations, rf)
	}
	out.WallS = time.Since(t0).Seconds()
	for h := range nt {
		out.DistinctNT = append(out.DistinctNT, h)
	}
	for h := range dec {
		out.DistinctDec = append(out.DistinctDec, h)
	}
	for h := range st {
		out.DistinctSt = append(out.DistinctSt, h)
	}
	b, _ := json.Marshal(out)
	if p := os.Getenv("VERIF_OUT"); p != "" {
		if err := os.WriteFile(p, b, 0o644); err != nil {
			fmt.Printf("HARNESS-ERROR writing %s: %v\n", p, err)
			os.Exit(2)
		}
	} else {
		fmt.Println(string(b))
	}
}

func head(l []string, n int) []string {
	if len(l) > n {
		return l[:n]
	}
	return l
}

// minimise shrinks the failing tape, confirms the result replays twice, and
// writes the replay file.
func minimise(t *testing.T, sc *Scenario, tier string, seed uint64, res Result) ReplayFile {
	want := firstKey(res)
	run := func(tp []uint32) string {
		return firstKey(runOne(t, sc, core.ReplayTape(tp), tier))
	}
	best := res.Tape
	runs := 0
	// the recorded tape itself must reproduce (replay is a pure function of it)
	if run(best) == want {
		budget := 1500
		wall := 60 * time.Second
		if sc.World == "X" || sc.World == "G" {
			budget, wall = 300, 90*time.Second
		}
		best, runs = core.Shrink(res.Tape, want, run, budget, wall)
	} else {
		want = "NONREPLAYABLE " + want
	}
	final := runOne(t, sc, core.ReplayTape(best), tier)
	if firstKey(final) != want {
		final = res
	}
	return writeReplay(sc, tier, seed, best, want, final, len(res.Tape), runs)
}

func replayPath(id string, seed uint64) string {
	dir := os.Getenv("VERIF_REPLAY_DIR")
	if dir == "" {
		dir = "."
	}
	_ = os.MkdirAll(dir, 0o755)
	return fmt.Sprintf("%s/%s-%d.json", dir, id, seed)
}

func writeReplay(sc *Scenario, tier string, seed uint64, tape []uint32, key string, res Result, origLen, runs int) ReplayFile {
	if tape == nil {
		tape = []uint32{}
	}
	rf := ReplayFile{Property: sc.ID, World: sc.World, Seed: seed, Tier: tier, Tape: tape, Key: key,
		OrigLen: origLen, Shrunk: runs, Trace: res.Trace, Sample: res.Info.Sample}
	if len(res.Viol) > 0 {
		rf.Expect = res.Viol[0]
	}
	path := replayPath(sc.ID, seed)
	b, _ := json.MarshalIndent(rf, "", " ")
	_ = os.WriteFile(path, b, 0o644)
	rf.Trace = head(rf.Trace, 40)
	rf.Sample = path // carries the path to the orchestrator
	return rf
}

// replayMain re-executes a replay file and reports whether the expected
// violation recurs. Exit status: 1 = reproduced, 0 = not reproduced.
func replayMain(t *testing.T, sc *Scenario, path string) {
	b, err := os.ReadFile(path)
	if err != nil {
		fmt.Printf("HARNESS-ERROR %v\n", err)
		os.Exit(2)
	}
	var rf ReplayFile
	if err := json.Unmarshal(b, &rf); err != nil {
		fmt.Printf("HARNESS-ERROR %v\n", err)
		os.Exit(2)
	}
	tier := rf.Tier
	if tier == "" {
		tier = "quick"
	}
	core.TraceOut = os.Stdout
	res := runOne(t, sc, core.ReplayTape(rf.Tape), tier)
	core.TraceOut = nil
	got := firstKey(res)
	if b, err := json.Marshal(res.Info.Sample); err == nil {
		fmt.Printf("CASE: %s\n", b)
	}
	if res.Aborted != "" {
		fmt.Printf("HARNESS-ERROR replay aborted: %s\n", res.Aborted)
	}
	fmt.Printf("RESULT-KEY: %s\n", got)
	if got != "" && got == rf.Key {
		fmt.Printf("REPRODUCED property=%s\n", sc.ID)
		os.Exit(1)
	}
	fmt.Printf("NOT-REPRODUCED property=%s want: %s\n", sc.ID, rf.Key)
	os.Exit(0)
}

func sortedKeys(m map[string]int) []string {
	ks := make([]string, 0, len(m))
	for k := range m {
		ks = append(ks, k)
	}
	sort.Strings(ks)
	return ks
}
