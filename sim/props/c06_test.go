package props

import (
	"fmt"
	"sort"
	"strconv"
	"strings"

	"github.com/celestiaorg/go-header/store"

	"verifsim/core"
	"verifsim/simdisk"
	"verifsim/simhdr"
)

// C06 - Store survives restart and crash without loss or dangling pointers.
//
// Three parts per run: (a) a seeded append/delete/sync/restart history checked
// against the model after every clean restart (including Stop straight after
// Append); (b) crash points: prefixes of the datastore's write log of that
// history are rebuilt into images and a fresh Store is opened on each;
// (c) in a third of the runs, N consecutive failing writes are placed inside
// the history (virtual time lets the flush back-off loop run out).
func init() {
	register(&Scenario{ID: "C06", World: "S", Run: runC06})
}

func runC06(s *core.Sim, tier string) RunInfo {
	w := newSW(s, false)
	m := w.M
	var hist []string
	crashPoints, cleanRestarts := 0, 0
	failMode := s.Tape.Coin("fail-writes", 1, 3)
	withDeletes := !failMode || s.Tape.Coin("fail-with-deletes", 1, 3)
	info := func() RunInfo {
		return RunInfo{Nontrivial: crashPoints+cleanRestarts > 0, StateKey: w.cfg() + fmt.Sprint(hist), Evals: 1 + crashPoints + cleanRestarts,
			Sample: map[string]any{"config": w.cfg(), "history": hist, "crash_points_checked": crashPoints, "clean_restarts": cleanRestarts, "write_log_len": w.Disk.LogLen(), "fail_mode": failMode}}
	}
	if err := w.Open(); err != nil {
		s.Violate("start-error", nil, "Start on empty disk: %v", err)
		return info()
	}
	stopped := false
	defer func() {
		if !stopped {
			w.S.Go("final-stop", func() { _ = w.St.Stop(ctxBG()) })
			w.S.Quiesce(0)
		}
	}()
	// transient write failures: N consecutive failing writes starting at a
	// tape-chosen write index
	strict := true // model equality is exact unless a DeleteRange failed under faults
	if failMode {
		at := s.Tape.Draw("fail-at", 40)
		n := core.Pick(s.Tape, "fail-n", []int{1, 2, 3, 5})
		w.Disk.Fault = func(class, op, key string, idx int) error {
			if class == "write" && idx >= at && idx < at+n {
				return simdisk.ErrInjected
			}
			return nil
		}
		hist = append(hist, fmt.Sprintf("[writes %d..%d fail]", at, at+n-1))
	}
	type delSpan struct {
		lo, hi int
		side   string
	}
	var spans []delSpan
	within := func(k int) string {
		for _, sp := range spans {
			if k > sp.lo && k < sp.hi {
				return sp.side
			}
		}
		return "none"
	}
	nops := 5 + s.Tape.Draw("nops", 20)
	for i := 0; i < nops && !s.Failed(); i++ {
		ops := []string{"append", "append", "append", "sync", "restart", "restart-now"}
		if withDeletes {
			ops = append(ops, "delete")
		}
		switch core.Pick(s.Tape, "op", ops) {
		case "append":
			from, to, kind := genAppend(s, w, m)
			hist = append(hist, fmt.Sprintf("append %d..%d (%s)", from, to, kind))
			if err := w.Append(w.Ch.Range(from, to)...); err != nil {
				s.Violate("append-error", nil, "Append: %v", err)
				break
			}
			m.Append(from, to)
		case "sync":
			hist = append(hist, "sync")
			if err := w.Sync(); err != nil {
				s.Violate("sync-error", nil, "Sync: %v", err)
			}
		case "delete":
			if m.Empty() {
				continue
			}
			from, to := genDelete(s, m, true)
			ok := m.DeleteOK(from, to)
			l0 := w.Disk.LogLen()
			err := w.Delete(from, to)
			if ok {
				side := "head-delete"
				if from == m.Tail {
					side = "tail-delete"
				}
				spans = append(spans, delSpan{l0, w.Disk.LogLen(), side})
			}
			hist = append(hist, fmt.Sprintf("delete [%d,%d) accept=%v err=%v", from, to, ok, err != nil))
			switch {
			case ok && err == nil && strict:
				m.Delete(from, to)
			case ok && err != nil && failMode:
				// a deletion that failed under injected write errors: the
				// exact outcome is C08's business; from here on only the
				// reopen oracle applies.
				strict = false
				s.Probe("delete-failed-under-write-errors")
			case !strict:
				// an earlier deletion failed under injected write errors: the model no longer
				// tells which ranges are acceptable, only the reopen oracle applies
			case ok:
				s.Violate("delete-rejected", nil, "DeleteRange(%d,%d) on %s: %v", from, to, m, err)
			case err == nil:
				s.Violate("delete-accepted", nil, "DeleteRange(%d,%d) on %s returned nil", from, to, m)
			}
		case "restart", "restart-now":
			// "restart-now": Stop immediately after an Append returned
			if m.Empty() {
				continue
			}
			hist = append(hist, "stop+start")
			if !failMode && s.Tape.Coin("read-error-during-start", 1, 5) {
				// the datastore fails one read while the Store starts: Start may refuse with that
				// error - and must leave everything as it is for the next Start
				if err := w.Stop(); err != nil {
					s.Violate("stop-error", nil, "Stop: %v", err)
					break
				}
				r0, _ := w.Disk.Counts()
				at := r0 + s.Tape.Draw("fail-read", 6)
				hit := false
				w.Disk.Fault = func(class, op, key string, idx int) error {
					if class == "read" && idx == at {
						hit = true
						return simdisk.ErrInjected
					}
					return nil
				}
				err := w.Open()
				w.Disk.Fault = nil
				hist = append(hist, fmt.Sprintf("  start with a failing read: hit=%v err=%v", hit, err != nil))
				s.Probe("read-error-during-start")
				if err == nil {
					// started all the same (the failing read was not essential, or not reached)
					if serr := w.Stop(); serr != nil {
						s.Violate("stop-error", nil, "Stop: %v", serr)
						break
					}
				} else if !hit {
					s.Violate("start-error", map[string]string{"after": "clean-stop"}, "Start after clean Stop: %v", err)
					break
				}
				if err := w.Open(); err != nil {
					s.Violate("start-error", map[string]string{"after": "failed-start"}, "Start after a Start that failed on a datastore read error: %v", err)
					break
				}
			} else if err := w.Restart(); err != nil {
				s.Violate("start-error", map[string]string{"after": "clean-stop"}, "Start after clean Stop: %v", err)
				break
			}
			cleanRestarts++
			if strict {
				w.checkStore(m, "after clean restart")
			} else {
				w.checkReopened(w.St, w.Disk, "after clean restart (relaxed)")
			}
		}
	}
	if s.Failed() {
		return info()
	}
	// final clean stop: everything acknowledged must be there afterwards
	if err := w.Stop(); err != nil {
		s.Violate("stop-error", nil, "Stop: %v", err)
		return info()
	}
	stopped = true
	w.Disk.Fault = nil
	log := w.Disk.Log()
	// --- crash points
	var ks []int
	if tier == "thorough" || len(log) <= 10 {
		for k := 0; k <= len(log); k++ {
			ks = append(ks, k)
		}
	} else {
		seen := map[int]bool{}
		add := func(k int) {
			if k >= 0 && k <= len(log) && !seen[k] {
				seen[k] = true
				ks = append(ks, k)
			}
		}
		add(len(log))
		// boundaries around pointer writes and deletes are the interesting ones
		var special []int
		for i, e := range log {
			if e.Kind != "commit" || strings.Contains(e.Summary(), "-/") {
				special = append(special, i, i+1)
			}
		}
		for j := 0; j < 6 && len(special) > 0; j++ {
			add(special[s.Tape.Draw("crash-special", len(special))])
		}
		for try := 0; try < 12 && len(ks) < 10; try++ { // bounded: an exhausted tape draws zeros
			add(s.Tape.Draw("crash-k", len(log)+1))
		}
		sort.Ints(ks)
	}
	for _, k := range ks {
		if s.Failed() {
			break
		}
		img := simdisk.FromImage(fmt.Sprintf("crash%d", k), s, log[:k])
		s.Fault("crash-at-write-boundary")
		crashPoints++
		var st *store.Store[*H]
		var err error
		ok := w.do(fmt.Sprintf("reopen@%d", k), func() {
			st, err = store.NewStore[*H](img.Flavour(w.Flav), w.storeOpts()...)
			if err == nil {
				err = startStore(st)
			}
		})
		if !ok {
			break
		}
		if err != nil {
			s.Violate("start-error", map[string]string{"after": "crash"}, "Start on the image of write-log prefix %d/%d failed: %v [%s] last entry: %s", k, len(log), err, w.cfg(), lastEntry(log, k))
			break
		}
		w.crashWithin = within(k)
		w.checkReopenedAt(st, img, fmt.Sprintf("crash at write-log prefix %d/%d (last: %s)", k, len(log), lastEntry(log, k)))
		w.crashWithin = ""
		w.S.Go("stop-img", func() { _ = st.Stop(ctxBG()) })
		w.S.Quiesce(0)
	}
	return info()
}

func lastEntry(log []simdisk.Entry, k int) string {
	if k == 0 {
		return "<empty disk>"
	}
	return log[k-1].Summary()
}

func (w *SW) checkReopened(st *store.Store[*H], d *simdisk.Disk, why string) {
	w.checkReopenedAt(st, d, why)
}

// checkReopenedAt is C06's oracle for a Store opened on surviving data.
func (w *SW) checkReopenedAt(st *store.Store[*H], d *simdisk.Disk, why string) {
	w.do("check-reopened", func() {
		s, ch := w.S, w.Ch
		ctx := ctxBG()
		bad := func(class string, attrs map[string]string, f string, a ...any) {
			s.Violate(class, attrs, "[%s; %s] "+f, append([]any{why, w.cfg()}, a...)...)
		}
		// survivors: heights whose header bytes are in the image
		surv := map[uint64]bool{}
		index := map[uint64]bool{}
		for _, k := range d.Keys() {
			name := strings.TrimPrefix(k, w.Prefix+"/")
			if n, err := strconv.ParseUint(name, 10, 64); err == nil {
				index[n] = true
			}
		}
		maxS := uint64(0)
		for h := ch.First; h < ch.First+200; h++ {
			if _, ok := d.Raw(w.Prefix + "/" + ch.At(h).Hash().String()); ok {
				surv[h] = true
				if h > maxS {
					maxS = h
				}
			}
		}
		head, herr := st.Head(ctx)
		tail, terr := st.Tail(ctx)
		for i, e := range []*H{head, tail} {
			name := []string{"head", "tail"}[i]
			if e == nil {
				continue
			}
			if !ch.Is(e) || !surv[e.Height()] {
				bad("dangling-pointer", map[string]string{"which": name}, "%s=%v is not a stored header (raw %s)", name, e, w.whereOn(d, e.Height()))
				return
			}
		}
		if herr == nil && terr == nil {
			if tail.Height() > head.Height() {
				bad("tail-above-head", nil, "Tail %d > Head %d", tail.Height(), head.Height())
				return
			}
			for h := tail.Height(); h <= head.Height(); h++ {
				g, err := st.GetByHeight(ctx, h)
				if err != nil || !ch.Is(g) || g.Height() != h {
					bad("gap-between-ends", map[string]string{"by": "height", "within": w.crashWithin, "flavour": w.Flav}, "Tail=%d Head=%d but GetByHeight(%d)=%v,%v (raw %s)", tail.Height(), head.Height(), h, g, err, w.whereOn(d, h))
					return
				}
				if g2, err := st.Get(ctx, g.Hash()); err != nil || !simhdr.Equal(g, g2) {
					bad("gap-between-ends", map[string]string{"by": "hash"}, "Get(hash of %d)=%v,%v", h, g2, err)
					return
				}
			}
		}
		// every surviving header is retrievable
		for _, h := range sortedHeights(surv) {
			x := ch.At(h)
			if g, err := st.Get(ctx, x.Hash()); err != nil || !simhdr.Equal(g, x) {
				bad("committed-header-lost", map[string]string{"by": "hash"}, "header %d is in the image but Get(hash)=%v,%v", h, g, err)
				return
			}
			if index[h] {
				c, cancel := short(ctx)
				g, err := st.GetByHeight(c, h)
				cancel()
				if err != nil || !simhdr.Equal(g, x) {
					bad("committed-header-lost", map[string]string{"by": "height"}, "header %d and its index are in the image but GetByHeight=%v,%v (Height()=%d)", h, g, err, st.Height())
					return
				}
			}
		}
		// continuation: append the next headers after the recovered head (or
		// after the highest survivor / from the chain's start when there is no
		// head) and expect Head to reach the top of the contiguous run.
		start := ch.First
		switch {
		case herr == nil:
			start = head.Height() + 1
		case terr == nil:
			// no head but a tail: the chain is the contiguous run of survivors above the tail
			start = tail.Height() + 1
			for surv[start] {
				start++
			}
		case maxS > 0:
			start = maxS + 1
		}
		n := uint64(1 + s.Tape.Draw("cont-n", 4))
		if err := st.Append(ctx, ch.Range(start, start+n-1)...); err != nil {
			bad("continuation-append-error", nil, "Append(%d..%d): %v", start, start+n-1, err)
			return
		}
		if err := st.Sync(ctx); err != nil {
			bad("continuation-sync-error", nil, "Sync: %v", err)
			return
		}
		want := start + n - 1
		for surv[want+1] {
			want++
		}
		nh, err := st.Head(ctx)
		if err != nil || nh.Height() != want || !ch.Is(nh) {
			bad("continuation-head", nil, "after appending %d..%d Head()=%v,%v want height %d (recovered head=%v/%v tail=%v/%v)", start, start+n-1, nh, err, want, head, herr, tail, terr)
			return
		}
		if st.Height() != want {
			bad("continuation-height", nil, "after appending %d..%d Height()=%d want %d", start, start+n-1, st.Height(), want)
		}
	})
}

func (w *SW) whereOn(d *simdisk.Disk, h uint64) string {
	var parts []string
	if _, ok := d.Raw(w.Prefix + "/" + w.Ch.At(h).Hash().String()); ok {
		parts = append(parts, "disk-hash")
	}
	if _, ok := d.Raw(fmt.Sprintf("%s/%d", w.Prefix, h)); ok {
		parts = append(parts, "disk-index")
	}
	if len(parts) == 0 {
		return "not-on-disk"
	}
	return strings.Join(parts, "+")
}

var _ = core.Pick[int]
