package props

import (
	"context"
	"fmt"
	"time"

	"github.com/celestiaorg/go-header/p2p"
	p2p_pb "github.com/celestiaorg/go-header/p2p/pb"

	"verifsim/core"
	"verifsim/simhdr"
)

// C05 - Exchange.GetRangeByHeight yields a verified contiguous run from from+1 or fails.
func init() {
	register(&Scenario{ID: "C05", World: "X", Run: runC05})
}

var byzKinds = []string{"honest", "notfound", "prefix", "shifted", "repeated", "reordered", "more", "forged", "wrong-chain",
	"undecodable", "unknown-status", "garbage", "truncated", "empty", "hang", "reset", "slow", "bad-validate", "shifted-back", "shifted-short", "empty-chain", "gap-relinked"}

// byzReply builds the reply of a scripted peer for a range request.
func byzReply(s *core.Sim, rng *core.Tape, ch *simhdr.Chain, kind string, req *p2p_pb.HeaderRequest, timeout time.Duration) Reply {
	o, a := req.GetOrigin(), req.Amount
	if a > 200 {
		a = 200
	}
	hon := func(from, n uint64) []*H {
		if from < ch.First {
			from = ch.First
		}
		return ch.Range(from, from+n-1)
	}
	svc := time.Duration(20+rng.Draw("svc-ms", 200)) * time.Millisecond
	r := Reply{Kind: kind, Service: svc}
	if a == 0 {
		r.Frames = nil
		return r
	}
	switch kind {
	case "honest":
		r.Frames = okFrames(hon(o, a)...)
	case "notfound":
		r.Frames = []frame{notFoundFrame()}
	case "prefix":
		k := uint64(1 + rng.Draw("prefix", int(a)))
		r.Frames = okFrames(hon(o, k)...)
	case "shifted":
		r.Frames = okFrames(hon(o+1+uint64(rng.Draw("shift", 5)), a)...)
	case "shifted-short":
		// starts above the requested origin but ends where the request ends
		if a > 1 {
			d := uint64(1 + rng.Draw("shift", int(a-1)))
			r.Frames = okFrames(hon(o+d, a-d)...)
		} else {
			r.Frames = okFrames(hon(o+1, 1)...)
		}
	case "empty-chain":
		hs := hon(o, a)
		i := rng.Draw("ec-at", len(hs))
		c := simhdr.Clone(hs[i])
		c.Chain = ""
		hs[i] = c.Sign()
		r.Frames = okFrames(hs...)
	case "gap-relinked":
		// starts at the requested origin, skips k heights somewhere, and the header after the
		// hole is re-issued (validly signed, as by a colluding signer) so that it links to the
		// header before the hole: the hash chain is unbroken, the heights are not consecutive
		hs := hon(o, a+3)
		if len(hs) >= 3 {
			i := 1 + rng.Draw("hole-at", len(hs)-2)
			k := 1 + rng.Draw("hole-len", 2)
			if i+k < len(hs) {
				salt := uint64(rng.Draw("salt", 1000))
				out := append([]*H(nil), hs[:i]...)
				prev := hs[i-1]
				for _, x := range hs[i+k:] { // the whole rest is re-issued on top of the forged link
					c := simhdr.Clone(x)
					c.Prev = append([]byte(nil), prev.Hash()...)
					c.Salt = salt
					prev = c.Sign()
					out = append(out, prev)
				}
				hs = out
			}
		}
		if uint64(len(hs)) > a {
			hs = hs[:a]
		}
		r.Frames = okFrames(hs...)
	case "shifted-back":
		d := uint64(1 + rng.Draw("shift", 3))
		if o > d+ch.First {
			r.Frames = okFrames(hon(o-d, a)...)
		} else {
			r.Frames = okFrames(hon(o, a)...)
			r.Kind = "honest"
		}
	case "repeated":
		hs := hon(o, a)
		for i := range hs {
			hs[i] = hs[0]
		}
		r.Frames = okFrames(hs...)
	case "reordered":
		hs := hon(o, a)
		if len(hs) > 1 {
			i := rng.Draw("swap", len(hs)-1)
			hs[i], hs[i+1] = hs[i+1], hs[i]
		}
		r.Frames = okFrames(hs...)
	case "more":
		r.Frames = okFrames(hon(o, a+2)...)
	case "forged":
		hs := hon(o, a)
		i := rng.Draw("forge-at", len(hs))
		hs[i] = simhdr.ForgeSig(hs[i], uint64(rng.Draw("salt", 1000)))
		r.Frames = okFrames(hs...)
	case "wrong-chain":
		hs := hon(o, a)
		i := rng.Draw("wc-at", len(hs))
		hs[i] = simhdr.WrongChain(hs[i])
		r.Frames = okFrames(hs...)
	case "bad-validate":
		hs := hon(o, a)
		i := rng.Draw("bv-at", len(hs))
		c := simhdr.Clone(hs[i])
		c.BadValidate = true
		hs[i] = c.Sign()
		r.Frames = okFrames(hs...)
	case "undecodable":
		r.Frames = okFrames(hon(o, a)...)
		r.Frames[rng.Draw("ud-at", len(r.Frames))].body = garbage(s, 1+rng.Draw("glen", 80))
	case "unknown-status":
		r.Frames = okFrames(hon(o, a)...)
		r.Frames[rng.Draw("us-at", len(r.Frames))].status = p2p_pb.StatusCode(3 + rng.Draw("code", 200))
	case "garbage":
		r.Frames = []frame{{raw: garbage(s, 1+rng.Draw("glen", 300))}}
	case "truncated":
		r.Frames = []frame{{raw: truncatedFrame(ch.At(max(o, ch.First)))}}
	case "empty":
	case "hang":
		r.Hang = true
	case "reset":
		k := rng.Draw("reset-after", int(a))
		r.Frames = okFrames(hon(o, uint64(k))...)
		r.Reset = true
	case "slow":
		r.Frames = okFrames(hon(o, a)...)
		r.Service = timeout + time.Duration(rng.Draw("slow-ms", 2000))*time.Millisecond
	}
	return r
}

func runC05(s *core.Sim, tier string) RunInfo {
	simhdr.Reset()
	np := 1 + s.Tape.Draw("peers", 5)
	w, err := newXW(s, np)
	if err != nil {
		s.Aborted = "mocknet: " + err.Error()
		return RunInfo{}
	}
	defer w.teardown()
	w.Ch = simhdr.NewChain("sim-chain", 1, time.Now().Add(-10*time.Hour), 3*time.Second)
	chunk := uint64(core.Pick(s.Tape, "chunk", []int{1, 2, 3, 7, 8, 64}))
	timeout := core.Pick(s.Tape, "req-timeout", []time.Duration{300 * time.Millisecond, time.Second, 3 * time.Second})
	rng := s.Sub("peers")
	// per-peer behaviour palette; half of the runs have an honest capable peer
	withHonest := s.Tape.Coin("honest-peer", 1, 2)
	var desc []string
	for i := 1; i <= np; i++ {
		var pal []string
		if withHonest && i == 1 {
			pal = []string{"honest"}
		} else {
			n := 1 + s.Tape.Draw("palette", 3)
			for j := 0; j < n; j++ {
				pal = append(pal, core.Pick(s.Tape, "kind", byzKinds))
			}
		}
		desc = append(desc, fmt.Sprintf("peer%d=%v", i, pal))
		pal2 := pal
		w.AddScriptPeer(i, func(n int, req *p2p_pb.HeaderRequest) Reply {
			return byzReply(s, rng, w.Ch, pal2[rng.Draw("pick", len(pal2))], req, timeout)
		})
	}
	var conn []int
	for i := 1; i <= np; i++ {
		conn = append(conn, i)
	}
	if err := w.StartClient(w.PeerIDs(1), conn, p2p.WithMaxHeadersPerRangeRequest(chunk), p2p.WithRequestTimeout[p2p.ClientParameters](timeout)); err != nil {
		s.Aborted = "client start: " + err.Error()
		return RunInfo{}
	}
	fromH := uint64(5 + s.Tape.Draw("from", 40))
	from := w.Ch.At(fromH)
	var to uint64
	degenerate := s.Tape.Coin("degenerate", 1, 6)
	if degenerate {
		to = core.Pick(s.Tape, "deg-to", []uint64{0, 1, fromH - 1, fromH, fromH + 1})
	} else {
		maxL := 6 * chunk // (up to seven sub-requests: more than the peers can take at once)
		if maxL > 40 {
			maxL = 40
		}
		to = fromH + 2 + uint64(s.Tape.Draw("len", int(maxL)))
	}
	deadline := 4 * time.Second
	var got []*H
	var gerr error
	var took time.Duration
	t, fin := s.Do("get-range", deadline+timeout+2*time.Second, func() {
		ctx, cancel := context.WithTimeout(context.Background(), deadline)
		defer cancel()
		t0 := time.Now()
		got, gerr = w.Ex.GetRangeByHeight(ctx, from, to)
		took = time.Since(t0)
	})
	sample := map[string]any{"peers": desc, "chunk": chunk, "from": fromH, "to": to, "request_timeout": timeout.String(),
		"result_len": len(got), "err": fmt.Sprint(gerr)}
	info := RunInfo{Nontrivial: true, StateKey: fmt.Sprint(desc, chunk, fromH, to), Evals: 1, Sample: sample}
	at := map[string]string{"degenerate": fmt.Sprint(degenerate)}
	if t.Panic != nil {
		s.Violate("panic", at, "GetRangeByHeight(from=%d,to=%d) panicked: %v\n%s", fromH, to, t.Panic, t.Stack)
		return info
	}
	if !fin {
		s.Violate("hang", at, "GetRangeByHeight(from=%d,to=%d) did not return within its own deadline (%v) plus one request timeout [%v chunk=%d]", fromH, to, deadline, desc, chunk)
		return info
	}
	if degenerate {
		if took >= deadline {
			s.Violate("degenerate-hang", nil, "GetRangeByHeight(from=%d,to=%d) only returned when the caller's own deadline (%v) ended: %v", fromH, to, deadline, gerr)
		}
		if gerr == nil {
			s.Violate("degenerate-accepted", nil, "GetRangeByHeight(from=%d,to=%d) returned %d headers and nil error", fromH, to, len(got))
		}
		return info
	}
	if gerr != nil {
		if withHonest {
			s.Probe("error-despite-honest-peer")
		}
		return info
	}
	if len(got) == 0 {
		s.Violate("empty-result", nil, "GetRangeByHeight(from=%d,to=%d) returned an empty slice and nil error", fromH, to)
		return info
	}
	for i, h := range got {
		want := fromH + 1 + uint64(i)
		switch {
		case h == nil:
			s.Violate("wrong-range", map[string]string{"kind": "nil"}, "result[%d] is nil", i)
		case h.Height() != want:
			s.Violate("wrong-range", map[string]string{"kind": "height"}, "GetRangeByHeight(from=%d,to=%d): result[%d] has height %d, want %d (heights must be from+1, +2, ...) [%v chunk=%d]", fromH, to, i, h.Height(), want, desc, chunk)
		case h.Height() >= to:
			s.Violate("wrong-range", map[string]string{"kind": "beyond-to"}, "result[%d] height %d >= to %d", i, h.Height(), to)
		case !w.Ch.Is(h):
			s.Violate("unverified-header", nil, "result[%d]=%v is not the honest header (cannot have passed Verify from `from`) [%v]", i, h, desc)
		}
		if s.Failed() {
			return info
		}
	}
	s.Probe("range-returned")
	return info
}
