package props

import (
	"context"
	"errors"
	"fmt"
	"time"

	"github.com/celestiaorg/go-header/p2p"

	"verifsim/core"
	"verifsim/simhdr"
)

// C18 - With honest peers the Exchange returns the full range however it is split.
func init() {
	register(&Scenario{ID: "C18", World: "X", Run: runC18})
}

func runC18(s *core.Sim, tier string) RunInfo {
	simhdr.Reset()
	np := 1 + s.Tape.Draw("peers", 5)
	w, err := newXW(s, np)
	if err != nil {
		s.Aborted = "mocknet: " + err.Error()
		return RunInfo{}
	}
	defer w.teardown()
	w.Ch = simhdr.NewChain("sim-chain", 1, time.Now().Add(-10*time.Hour), 3*time.Second)
	chunk := uint64(core.Pick(s.Tape, "chunk", []int{1, 2, 3, 5, 7, 8, 16, 33, 64}))
	timeout := core.Pick(s.Tape, "req-timeout", []time.Duration{500 * time.Millisecond, 2 * time.Second})
	if s.Tape.Coin("descheduled-goroutines", 1, 3) {
		// now and then a goroutine of the client stays parked for a while (less than a request
		// timeout), so that another peer's answer can overtake it
		_ = 100 * time.Millisecond // (s.AutoStall stays 0: see DESIGN 8.3 - withdrawn on the last evening)
	}
	fromH := uint64(3 + s.Tape.Draw("from", 30))
	maxL := 3 * chunk
	if maxL > 70 {
		maxL = 70
	}
	ln := 1 + uint64(s.Tape.Draw("len", int(maxL)))
	to := fromH + ln + 1
	top := to + uint64(s.Tape.Draw("extra", 5))
	// earlier requests on the same Exchange (peer scores and sessions have a history): ranges
	// above what most lagging peers hold, so that those answer NOT_FOUND again and again
	warm := s.Tape.Biased("warm-up-requests", 4, 2)
	warmFrom := top
	if warm > 0 {
		top += 12
	}
	capable := 1 + s.Tape.Draw("capable", np) // this one holds everything and is fault-free
	rng := s.Sub("servers")
	var desc []string
	var idx []int
	heads := make([]uint64, np+1)
	faults := make([]string, np+1)
	servers := make([]*XServer, np+1)
	var capableFaultArmed bool // the capable peer times out once from now on (final request only)
	var capableResetArmed bool // ... or resets one stream
	for i := 1; i <= np; i++ {
		idx = append(idx, i)
		head := top
		fault := "none"
		if i != capable {
			// availability prefix 1..a_i: may end before, inside or after the range
			head = fromH - 1 + uint64(s.Tape.Draw("avail", int(ln)+4))
			if head < 2 {
				head = 2
			}
			fault = core.Pick(s.Tape, "benign", []string{"none", "none", "timeout-once", "slow", "reset-once"})
		}
		xs, err := w.AddServer(i, 1, head)
		if err != nil {
			s.Aborted = "server: " + err.Error()
			return RunInfo{}
		}
		desc = append(desc, fmt.Sprintf("peer%d has 1..%d fault=%s", i, head, fault))
		heads[i], servers[i] = head, xs
		faults[i] = fault
		n := 0
		f := fault
		isCapable := i == capable
		resets := 0
		xs.Rec.FailRange = func(from, to uint64) error {
			// a hiccup of the server's own store: the request is given up (the stream is reset),
			// the peer and the connection are fine
			if (f == "reset-once" && resets == 0) || (isCapable && capableResetArmed) {
				resets++
				if isCapable {
					capableResetArmed = false
				}
				s.Fault("peer-resets-a-stream-once")
				return errors.New("server store: transient I/O error")
			}
			return nil
		}
		xs.Rec.Delay = func(call string) time.Duration {
			n++
			base := time.Duration(5+rng.Draw("svc-ms", 40)) * time.Millisecond
			if isCapable && capableFaultArmed {
				capableFaultArmed = false
				s.Fault("capable-peer-times-out-once")
				return timeout + 200*time.Millisecond
			}
			switch f {
			case "timeout-once":
				if n == 1 {
					s.Fault("peer-times-out-once")
					return timeout + 200*time.Millisecond
				}
			case "slow":
				return base * 5
			}
			return base
		}
	}
	// the trusted peers are all of them, or only some (ranges are fetched from whoever is connected;
	// only trusted peers are dialled again by the Exchange itself when a connection is gone)
	trusted := idx
	capableTrusted := true
	if np > 1 && s.Tape.Coin("trusted-subset", 1, 3) {
		trusted = nil
		for _, i := range idx {
			if s.Tape.Coin("trust-peer", 1, 2) {
				trusted = append(trusted, i)
			}
		}
		if len(trusted) == 0 {
			trusted = []int{idx[s.Tape.Draw("trust-one", len(idx))]}
		}
		capableTrusted = false
		for _, i := range trusted {
			if i == capable {
				capableTrusted = true
			}
		}
		desc = append(desc, fmt.Sprintf("trusted peers: %v", trusted))
	}
	if err := w.StartClient(w.PeerIDs(trusted...), idx, p2p.WithMaxHeadersPerRangeRequest(chunk), p2p.WithRequestTimeout[p2p.ClientParameters](timeout)); err != nil {
		s.Aborted = "client start: " + err.Error()
		return RunInfo{}
	}
	for k := 0; k < warm && !s.Failed(); k++ {
		wf := warmFrom + uint64(s.Tape.Draw("warm-from", 4))
		wl := 1 + uint64(s.Tape.Draw("warm-len", 6))
		wt := wf + wl + 1
		if wt-1 > top {
			wt = top + 1
		}
		var wgot []*H
		var werr error
		wb := 20 * (timeout + 500*time.Millisecond)
		_, fin := s.Do("warm-up-range", wb+5*time.Second, func() {
			ctx, cancel := context.WithTimeout(context.Background(), wb)
			defer cancel()
			wgot, werr = w.Ex.GetRangeByHeight(ctx, w.Ch.At(wf), wt)
		})
		desc = append(desc, fmt.Sprintf("earlier request (%d:%d)", wf, wt))
		if !fin || werr != nil || uint64(len(wgot)) != wt-wf-1 {
			s.Violate("honest-range-failed", map[string]string{"phase": "warm-up"}, "earlier GetRangeByHeight(%d,%d) on the same Exchange: finished=%v err=%v len=%d although peer%d holds everything and is healthy [%v chunk=%d]", wf, wt, fin, werr, len(wgot), capable, desc, chunk)
			return RunInfo{Nontrivial: true, StateKey: fmt.Sprint(desc, chunk), Evals: 1}
		}
		s.Probe("earlier-request-on-same-exchange")
	}
	if s.Tape.Coin("idle-period", 1, 6) {
		// the Exchange sits idle for a while (the peer tracker's periodic clean-up runs, a peer that
		// was disconnected for more than an hour is forgotten) before the judged request
		d := time.Duration(6+s.Tape.Draw("idle-min", 120)) * time.Minute
		s.Sleep(d)
		desc = append(desc, fmt.Sprintf("idle for %v", d))
		s.Probe("idle-period-before-request")
	}
	// the peer that holds everything may itself hiccup once in the judged request, as long as
	// another honest peer holds the whole requested range: together they still hold it
	capableDrops := false
	alt := 0 // the peer that stays healthy and connected when the one holding everything hiccups
	for i := 1; i <= np; i++ {
		// (the other holder of the range is one without a fault of its own: after a failed request a
		// session does not go back to that peer, so somebody has to stay fault-free)
		if i != capable && heads[i] >= to-1 && faults[i] == "none" && s.Tape.Coin("capable-hiccups", 1, 3) {
			alt = i
			if s.Tape.Coin("hiccup-is-reset", 1, 3) {
				capableResetArmed = true
				desc = append(desc, fmt.Sprintf("peer%d (holds everything) resets one stream; peer%d holds the range too", capable, i))
			} else if s.Tape.Coin("hiccup-is-disconnect", 1, 2) {
				capableDrops = true
				desc = append(desc, fmt.Sprintf("peer%d (holds everything) loses its connection once; peer%d holds the range too", capable, i))
			} else {
				capableFaultArmed = true
				desc = append(desc, fmt.Sprintf("peer%d (holds everything) times out once; peer%d holds the range too", capable, i))
			}
			break
		}
	}
	// optional disconnect / reconnect of a non-capable peer while the request runs
	var side []*core.Task
	if capableDrops {
		side = append(side, s.Go("disconnect-capable", func() {
			s.YieldAfter("net:disconnect", time.Duration(s.Tape.Draw("cdisc-ms", 60))*time.Millisecond)
			_ = w.Net.DisconnectPeers(w.Hosts[0].ID(), w.Hosts[capable].ID())
			s.Fault("capable-peer-disconnect")
			s.YieldAfter("net:reconnect", time.Duration(50+s.Tape.Draw("creconn-ms", 500))*time.Millisecond)
			_, _ = w.Net.ConnectPeers(w.Hosts[0].ID(), w.Hosts[capable].ID())
		}))
	}
	if np > 1 && s.Tape.Coin("disconnect", 1, 3) {
		victim := 1 + s.Tape.Draw("victim", np)
		if victim != capable && victim != alt {
			desc = append(desc, fmt.Sprintf("peer%d disconnects and reconnects", victim))
			side = append(side, s.Go("disconnect", func() {
				s.YieldAfter("net:disconnect", time.Duration(s.Tape.Draw("disc-ms", 200))*time.Millisecond)
				_ = w.Net.DisconnectPeers(w.Hosts[0].ID(), w.Hosts[victim].ID())
				s.Fault("peer-disconnect")
				s.YieldAfter("net:reconnect", time.Duration(50+s.Tape.Draw("reconn-ms", 500))*time.Millisecond)
				_, _ = w.Net.ConnectPeers(w.Hosts[0].ID(), w.Hosts[victim].ID())
			}))
		}
	}
	nchunks := (ln + chunk - 1) / chunk
	budget := time.Duration(nchunks+1) * time.Duration(np+2) * (timeout + 500*time.Millisecond) * 2
	var got []*H
	var gerr error
	t := s.Go("get-range", func() {
		ctx, cancel := context.WithTimeout(context.Background(), budget)
		defer cancel()
		got, gerr = w.Ex.GetRangeByHeight(ctx, w.Ch.At(fromH), to)
	})
	// sometimes a second caller asks the same Exchange for an overlapping range at the same time
	// (sessions share the peer tracker and its scores): both get exactly their ranges
	var got2 []*H
	var gerr2 error
	var from2, to2 uint64
	if s.Tape.Coin("second-caller", 1, 4) {
		from2 = fromH + uint64(s.Tape.Draw("second-from", int(ln)))
		to2 = to
		side = append(side, s.Go("get-range-2", func() {
			ctx, cancel := context.WithTimeout(context.Background(), 2*budget)
			defer cancel()
			got2, gerr2 = w.Ex.GetRangeByHeight(ctx, w.Ch.At(from2), to2)
		}))
		desc = append(desc, fmt.Sprintf("a second caller asks for (%d:%d) at the same time", from2, to2))
		s.Probe("two-range-requests-at-once")
	}
	// or the Exchange is stopped while the request is in flight: whatever the request then returns,
	// it returns (no hang until the caller's deadline is long gone) and nothing panics
	stopped := false
	if s.Tape.Coin("exchange-stopped-mid-request", 1, 8) {
		stopped = true
		side = append(side, s.Go("exchange-stop", func() {
			s.YieldAfter("stop-after", time.Duration(s.Tape.Draw("stop-after-ms", 80))*time.Millisecond)
			c, cancel := context.WithTimeout(context.Background(), time.Minute)
			defer cancel()
			_ = w.Ex.Stop(c)
		}))
		desc = append(desc, "the Exchange is stopped while the request is in flight")
		s.Probe("exchange-stopped-mid-request")
	}
	stuck := s.Settle(2*budget+5*time.Second, append(side, t)...)
	if stopped {
		info := RunInfo{Nontrivial: true, StateKey: fmt.Sprint(desc, chunk, fromH, to), Evals: 1}
		for _, tk := range append(side, t) {
			if tk.Panic != nil {
				s.Violate("panic", map[string]string{"racing": "stop"}, "%s panicked while the Exchange was being stopped: %v\n%s", tk.Name, tk.Panic, tk.Stack)
				return info
			}
		}
		if len(stuck) > 0 {
			s.Violate("hang", map[string]string{"racing": "stop", "op": opName(stuck[0].Name)}, "%s did not return after the Exchange was stopped [%v]", stuck[0].Name, desc)
		}
		w.Ex = nil // stopped already: nothing for the teardown to stop
		return info
	}
	if to2 != 0 && len(stuck) == 0 {
		if gerr2 != nil || uint64(len(got2)) != to2-from2-1 {
			s.Violate("honest-range-failed", map[string]string{"caller": "second"}, "concurrent GetRangeByHeight(%d,%d): err=%v len=%d although peer%d holds everything and is healthy [%v chunk=%d]", from2, to2, gerr2, len(got2), capable, desc, chunk)
		} else {
			for i, h := range got2 {
				if !simhdr.Equal(h, w.Ch.At(from2+1+uint64(i))) {
					s.Violate("wrong-range", map[string]string{"kind": "content", "caller": "second"}, "second caller: result[%d]=%v, want height %d", i, h, from2+1+uint64(i))
					break
				}
			}
		}
	}
	info := RunInfo{Nontrivial: np > 1 || nchunks > 1, StateKey: fmt.Sprint(desc, chunk, fromH, to), Evals: 1,
		Sample: map[string]any{"peers": desc, "chunk": chunk, "from": fromH, "to": to, "request_timeout": timeout.String(), "budget": budget.String(), "result_len": len(got), "err": fmt.Sprint(gerr)}}
	if t.Panic != nil {
		s.Violate("panic", nil, "GetRangeByHeight panicked: %v\n%s", t.Panic, t.Stack)
		return info
	}
	if len(stuck) > 0 {
		s.Violate("hang", nil, "GetRangeByHeight(%d,%d) did not return within %v [%v chunk=%d]", fromH, to, budget, desc, chunk)
		return info
	}
	if gerr != nil {
		s.Violate("honest-range-failed", nil, "GetRangeByHeight(%d,%d) failed with %v although peer%d holds everything and is healthy [%v chunk=%d timeout=%v budget=%v]", fromH, to, gerr, capable, desc, chunk, timeout, budget)
		return info
	}
	if uint64(len(got)) != ln {
		s.Violate("wrong-range", map[string]string{"kind": "length"}, "GetRangeByHeight(%d,%d) returned %d headers, want %d [%v chunk=%d]", fromH, to, len(got), ln, desc, chunk)
		return info
	}
	for i, h := range got {
		if !simhdr.Equal(h, w.Ch.At(fromH+1+uint64(i))) {
			s.Violate("wrong-range", map[string]string{"kind": "content"}, "result[%d]=%v, want height %d [%v chunk=%d]", i, h, fromH+1+uint64(i), desc, chunk)
			return info
		}
	}
	capableFaultArmed, capableResetArmed = false, false // (a hiccup that did not happen stays away from now on)
	// (and so do the descheduled goroutines: what follows are requests with a time budget, and the
	// stalls are the simulator's, not the network's)
	s.AutoStall = 0
	// afterwards the same Exchange is asked for a range that only the peer holding everything has:
	// whatever happened to that peer's requests before (a timeout, a lost connection that came
	// back), it is connected and honest, so the range arrives
	if warm > 0 && s.Tape.Coin("later-request", 1, 2) {
		wf := warmFrom + uint64(s.Tape.Draw("later-from", 4))
		wt := wf + 2 + uint64(s.Tape.Draw("later-len", 5))
		if wt-1 > top {
			wt = top + 1
		}
		var lgot []*H
		var lerr error
		lb := 20 * (timeout + 500*time.Millisecond)
		_, lfin := s.Do("later-range", lb+5*time.Second, func() {
			ctx, cancel := context.WithTimeout(context.Background(), lb)
			defer cancel()
			lgot, lerr = w.Ex.GetRangeByHeight(ctx, w.Ch.At(wf), wt)
		})
		desc = append(desc, fmt.Sprintf("later request (%d:%d)", wf, wt))
		if !lfin || lerr != nil || uint64(len(lgot)) != wt-wf-1 {
			s.Violate("honest-range-failed", map[string]string{"phase": "later"}, "later GetRangeByHeight(%d,%d) on the same Exchange: finished=%v err=%v len=%d although peer%d holds everything, is honest and connected [%v chunk=%d]", wf, wt, lfin, lerr, len(lgot), capable, desc, chunk)
			return info
		}
		s.Probe("later-request-on-same-exchange")
	}
	if !capableTrusted {
		// Head/Get/GetByHeight go to the trusted peers only, and none of them is known to hold the target
		s.Probe("full-range-returned")
		return info
	}
	// Head / Get / GetByHeight through the wire encoding
	var hd, g1, g2 *H
	var e0, e1, e2 error
	target := w.Ch.At(fromH + 1)
	t2, fin := s.Do("singles", time.Minute, func() {
		ctx, cancel := context.WithTimeout(context.Background(), 30*time.Second)
		defer cancel()
		hd, e0 = w.Ex.Head(ctx)
		g1, e1 = w.Ex.Get(ctx, target.Hash())
		g2, e2 = w.Ex.GetByHeight(ctx, target.Height())
	})
	if t2.Panic != nil || !fin {
		s.Violate("hang", map[string]string{"op": "singles"}, "Head/Get/GetByHeight: panic=%v finished=%v", t2.Panic, fin)
		return info
	}
	if e0 != nil || hd == nil || !w.Ch.Is(hd) {
		s.Violate("wire-roundtrip", map[string]string{"op": "Head"}, "Head()=%v,%v with honest servers [%v]", hd, e0, desc)
	}
	// Get/GetByHeight take the first valid answer of the trusted peers: with every peer honest and
	// at least the capable one holding the header, the call must succeed and return it unchanged
	if e1 != nil || !simhdr.Equal(g1, target) {
		s.Violate("wire-roundtrip", map[string]string{"op": "Get"}, "Get(hash of %d)=%v,%v [%v]", target.Height(), g1, e1, desc)
	}
	if e2 != nil || !simhdr.Equal(g2, target) {
		s.Violate("wire-roundtrip", map[string]string{"op": "GetByHeight"}, "GetByHeight(%d)=%v,%v [%v]", target.Height(), g2, e2, desc)
	}
	s.Probe("full-range-returned")
	return info
}
