package props

import (
	"context"
	"encoding/binary"
	"errors"
	"fmt"
	"io"
	"time"

	"github.com/libp2p/go-libp2p/core/network"

	"github.com/celestiaorg/go-libp2p-messenger/serde"

	header "github.com/celestiaorg/go-header"
	"github.com/celestiaorg/go-header/p2p"
	p2p_pb "github.com/celestiaorg/go-header/p2p/pb"

	"verifsim/core"
	"verifsim/simhdr"
)

// C10 - ExchangeServer answers any request with bounded work and only true store data.
func init() {
	register(&Scenario{ID: "C10", World: "X", Run: runC10})
}

type rawResp struct {
	frames   []*p2p_pb.HeaderResponse
	endErr   error // io.EOF = clean close
	took     time.Duration
	timedOut bool
}

// rawRequest opens a stream to the server, sends `payload` (a framed request or
// arbitrary bytes), optionally half-closes, and reads frames until the stream ends.
func (w *XW) rawRequest(serverIdx int, payload []byte, closeWrite bool, maxWait time.Duration) rawResp {
	var out rawResp
	t0 := time.Now()
	ctx, cancel := context.WithTimeout(context.Background(), maxWait)
	defer cancel()
	stream, err := w.Hosts[0].NewStream(ctx, w.Hosts[serverIdx].ID(), xProto)
	if err != nil {
		out.endErr = err
		return out
	}
	_ = stream.SetDeadline(time.Now().Add(maxWait))
	if pause := w.SenderPause; pause > 0 && len(payload) > 1 {
		// a slow sender: the request arrives in two pieces with a pause in between
		if _, err := stream.Write(payload[:len(payload)/2]); err != nil {
			out.endErr = err
			_ = stream.Reset()
			return out
		}
		w.S.YieldAfter("slow-sender", pause)
		payload = payload[len(payload)/2:]
	}
	if len(payload) > 0 {
		if _, err := stream.Write(payload); err != nil {
			out.endErr = err
			_ = stream.Reset()
			return out
		}
	}
	if closeWrite {
		_ = stream.CloseWrite()
	}
	for len(out.frames) < 300 {
		if w.ReaderPause > 0 && len(out.frames) > 0 && len(out.frames) <= 5 {
			// a slow reader: back pressure on the server's writes (for the first frames only: the
			// reader's own pauses must stay well inside the time the request is given)
			w.S.YieldAfter("slow-reader", w.ReaderPause)
		}
		resp := new(p2p_pb.HeaderResponse)
		if _, err := serde.Read(stream, resp); err != nil {
			out.endErr = err
			break
		}
		out.frames = append(out.frames, resp)
	}
	out.took = time.Since(t0)
	if out.took >= maxWait {
		out.timedOut = true
	}
	if errors.Is(out.endErr, io.EOF) {
		_ = stream.Close()
	} else {
		_ = stream.Reset()
	}
	return out
}

func frameReq(req *p2p_pb.HeaderRequest) []byte {
	buf := make([]byte, req.Size()+16)
	n, _ := serde.Marshal(req, buf)
	return buf[:n]
}

func runC10(s *core.Sim, tier string) RunInfo {
	simhdr.Reset()
	w, err := newXW(s, 1)
	if err != nil {
		s.Aborted = "mocknet: " + err.Error()
		return RunInfo{}
	}
	defer w.teardown()
	w.Ch = simhdr.NewChain("sim-chain", 1, time.Now().Add(-10*time.Hour), 3*time.Second)
	tail := uint64(2 + s.Tape.Draw("tail", 120))
	H := tail + uint64(s.Tape.Draw("len", 150))
	readDL := time.Duration(1+s.Tape.Draw("read-dl", 5)) * time.Second
	reqTO := time.Duration(1+s.Tape.Draw("req-to", 5)) * time.Second
	writeDL := time.Duration(1+s.Tape.Draw("write-dl", 5)) * time.Second
	xs, err := w.AddServer(1, tail, H, p2p.WithReadDeadline[p2p.ServerParameters](readDL), p2p.WithRequestTimeout[p2p.ServerParameters](reqTO), p2p.WithWriteDeadline[p2p.ServerParameters](writeDL))
	if err != nil {
		s.Aborted = "server: " + err.Error()
		return RunInfo{}
	}
	if _, err := w.Net.ConnectPeers(w.Hosts[0].ID(), w.Hosts[1].ID()); err != nil {
		s.Aborted = "connect: " + err.Error()
		return RunInfo{}
	}
	s.Quiesce(100 * time.Millisecond)
	mid := (tail + H) / 2
	origins := []uint64{0, 1, tail - 1, tail, tail + 1, mid, H - 1, H, H + 1, H + 70, ^uint64(0), ^uint64(0) - 63}
	amounts := []uint64{0, 1, 2, 63, 64, 65, 1000, ^uint64(0), ^uint64(0) - 1}
	maxWait := readDL + reqTO + writeDL + 2*time.Second
	var cases []string
	ncases := 10
	if tier == "thorough" {
		ncases = 30
	}
	for c := 0; c < ncases && !s.Failed(); c++ {
		kind := core.Pick(s.Tape, "req-kind", []string{"range", "range", "range", "range", "hash", "garbage", "slow-store", "half-frame", "dirty-then-short", "two-hashes", "range-growing"})
		if c == ncases-1 && s.Tape.Coin("server-stopped-mid-request", 1, 3) {
			// the last request of the run is in flight (the store takes its time) when the server is
			// stopped: the client sees the end of its stream, nothing panics, nothing false is sent
			origin := core.Pick(s.Tape, "origin", origins[3:8])
			amount := core.Pick(s.Tape, "amount", []uint64{1, 5, 64})
			d := time.Duration(20+s.Tape.Draw("slow-ms", 400)) * time.Millisecond
			xs.Rec.Delay = func(string) time.Duration { return d }
			cases = append(cases, fmt.Sprintf("range origin=%d amount=%d, server stopped meanwhile", origin, amount))
			if s.Tape.Coin("slow-sender", 1, 2) {
				// the request is only half read when the server is stopped
				w.SenderPause = time.Duration(1+s.Tape.Draw("sender-pause-ms", 400)) * time.Millisecond
				cases = append(cases, "slow sender")
				s.Probe("server-stopped-with-half-read-request")
			}
			if w.SenderPause == 0 && s.Tape.Coin("slow-reader", 1, 2) {
				w.ReaderPause = time.Duration(1+s.Tape.Draw("reader-pause-ms", 100)) * time.Millisecond
				cases = append(cases, "slow reader")
			}
			var resp rawResp
			tr := s.Go("request", func() {
				resp = w.rawRequest(1, frameReq(&p2p_pb.HeaderRequest{Data: &p2p_pb.HeaderRequest_Origin{Origin: origin}, Amount: amount}), true, maxWait)
			})
			var stopErr error
			ts := s.Go("server-stop", func() {
				s.YieldAfter("stop-after", time.Duration(s.Tape.Draw("stop-after-ms", 300))*time.Millisecond)
				cc, cancel := context.WithTimeout(context.Background(), time.Minute)
				defer cancel()
				stopErr = xs.Srv.Stop(cc)
			})
			stuck := s.Settle(maxWait+time.Minute, tr, ts)
			xs.Rec.Delay = nil
			xs.Srv = nil // stopped: nothing for the teardown to stop
			for _, tk := range []*core.Task{tr, ts} {
				if tk.Panic != nil {
					s.Violate("panic", map[string]string{"racing": "server-stop"}, "%s panicked: %v\n%s", tk.Name, tk.Panic, tk.Stack)
				}
			}
			if len(stuck) > 0 || resp.timedOut {
				s.Violate("server-hang", map[string]string{"req": "range", "racing": "server-stop"}, "request in flight while the server was stopped: not finished within %v (stop err %v)", maxWait, stopErr)
				break
			}
			for i, f := range resp.frames {
				if f.StatusCode != p2p_pb.StatusCode_OK {
					continue
				}
				h := new(simhdr.H)
				if err := h.UnmarshalBinary(f.Body); err != nil || !simhdr.Equal(h, w.Ch.At(origin+uint64(i))) || origin+uint64(i) > H || origin+uint64(i) < tail {
					s.Violate("false-data", map[string]string{"req": "range", "racing": "server-stop"}, "request origin=%d amount=%d while the server was stopped: frame %d is %v (err %v)", origin, amount, i, h, err)
					break
				}
			}
			// a stream that ends cleanly after OK frames carries the whole answer: the requested range
			// as far as the store's head reaches, not a shorter prefix of it
			if nOK := len(resp.frames); errors.Is(resp.endErr, io.EOF) && nOK > 0 && resp.frames[0].StatusCode == p2p_pb.StatusCode_OK && origin >= tail && origin <= H {
				want := amount
				if origin+amount-1 > H {
					want = H - origin + 1
				}
				if uint64(nOK) < want {
					s.Violate("short-prefix", map[string]string{"racing": "server-stop"}, "request origin=%d amount=%d (store %d..%d) ended with a clean close after %d of %d headers while the server was stopped [%v]", origin, amount, tail, H, nOK, want, cases[len(cases)-1])
				}
			}
			s.Probe("server-stopped-mid-request")
			break
		}
		if kind == "range-growing" {
			// the server's store grows while a range request near its head is being served (every
			// store call of the server is a park point here): still no more than the requested
			// heights are read, and what is sent are the store's headers
			n := uint64(1 + s.Tape.Draw("grow-by", 120))
			origin := H - uint64(s.Tape.Draw("near-head", 5))
			if origin < tail {
				origin = tail
			}
			amount := core.Pick(s.Tape, "amount", []uint64{1, 2, 5, 63, 64})
			xs.Rec.Delay = func(string) time.Duration { return time.Millisecond }
			xs.Rec.ResetCounts()
			cases = append(cases, fmt.Sprintf("range origin=%d amount=%d while the store grows %d..%d", origin, amount, H+1, H+n))
			var resp rawResp
			tr := s.Go("request", func() {
				resp = w.rawRequest(1, frameReq(&p2p_pb.HeaderRequest{Data: &p2p_pb.HeaderRequest_Origin{Origin: origin}, Amount: amount}), true, maxWait)
			})
			growAfter := time.Duration(s.Tape.Draw("grow-after-ms", 4)) * time.Millisecond
			ta := s.Go("server-store-grows", func() {
				// (virtual time only passes when nobody can run: without a delay of its own the
				// growth would always be over before the request has reached the server's store)
				s.YieldAfter("grow-after", growAfter)
				_ = xs.Rec.Store.Append(context.Background(), w.Ch.Range(H+1, H+n)...)
				_ = xs.Rec.Store.Sync(context.Background())
			})
			stuck := s.Settle(maxWait+5*time.Second, tr, ta)
			xs.Rec.Delay = nil
			oldH := H
			H += n
			if len(stuck) > 0 || resp.timedOut {
				s.Violate("server-hang", map[string]string{"req": kind}, "range request while the store grows: the server did not finish within %v", maxWait)
				break
			}
			_, _, calls := xs.Rec.Counts()
			var hdrReads uint64
			for _, c := range calls {
				var a, b uint64
				if k, _ := fmt.Sscanf(c, "GetRange(%d,%d)", &a, &b); k == 2 && b > a {
					hdrReads += b - a
				}
			}
			if hdrReads > amount {
				s.Violate("excess-store-reads", map[string]string{"pruned": "false", "growing": "true"}, "request origin=%d amount=%d while the store grew from head %d to %d made the server read %d headers (calls %v)", origin, amount, oldH, H, hdrReads, calls)
				break
			}
			for i, f := range resp.frames {
				if f.StatusCode != p2p_pb.StatusCode_OK {
					continue
				}
				h := new(simhdr.H)
				if err := h.UnmarshalBinary(f.Body); err != nil || !simhdr.Equal(h, w.Ch.At(origin+uint64(i))) || uint64(i) >= amount {
					s.Violate("false-data", map[string]string{"req": "range", "growing": "true"}, "request origin=%d amount=%d while the store grew: frame %d is %v (err %v)", origin, amount, i, h, err)
					break
				}
			}
			s.Probe("range-request-while-store-grows")
			continue
		}
		if kind == "two-hashes" {
			// two hash requests in flight at once against a store that takes its time: each is
			// answered with the header of its own hash (nothing of one request leaks into the other)
			ha := w.Ch.At(tail + uint64(s.Tape.Draw("ha", int(H-tail+1))))
			hb := w.Ch.At(tail + uint64(s.Tape.Draw("hb", int(H-tail+1))))
			d := time.Duration(1+s.Tape.Draw("get-ms", 200)) * time.Millisecond
			xs.Rec.Delay = func(call string) time.Duration { return d }
			cases = append(cases, fmt.Sprintf("two hash requests at once: %d and %d", ha.Height(), hb.Height()))
			var ra, rb rawResp
			ta := s.Go("request-a", func() {
				ra = w.rawRequest(1, frameReq(&p2p_pb.HeaderRequest{Data: &p2p_pb.HeaderRequest_Hash{Hash: ha.Hash()}, Amount: 1}), true, maxWait)
			})
			tb := s.Go("request-b", func() {
				rb = w.rawRequest(1, frameReq(&p2p_pb.HeaderRequest{Data: &p2p_pb.HeaderRequest_Hash{Hash: hb.Hash()}, Amount: 1}), true, maxWait)
			})
			stuck := s.Settle(maxWait+5*time.Second, ta, tb)
			xs.Rec.Delay = nil
			if len(stuck) > 0 || ra.timedOut || rb.timedOut {
				s.Violate("server-hang", map[string]string{"req": kind}, "two concurrent hash requests (store tail=%d head=%d): the server did not finish within %v", tail, H, maxWait)
				break
			}
			w.checkHashReply(s, ra, ha.Hash(), tail, H, fmt.Sprintf("hash of %d (concurrent with %d)", ha.Height(), hb.Height()))
			w.checkHashReply(s, rb, hb.Hash(), tail, H, fmt.Sprintf("hash of %d (concurrent with %d)", hb.Height(), ha.Height()))
			s.Probe("two-hash-requests-in-flight")
			continue
		}
		var payload []byte
		closeWrite := true
		var origin, amount uint64
		var hash []byte
		desc := kind
		xs.Rec.Delay = nil
		switch kind {
		case "range", "slow-store":
			origin = core.Pick(s.Tape, "origin", origins)
			amount = core.Pick(s.Tape, "amount", amounts)
			payload = frameReq(&p2p_pb.HeaderRequest{Data: &p2p_pb.HeaderRequest_Origin{Origin: origin}, Amount: amount})
			desc = fmt.Sprintf("%s origin=%d amount=%d", kind, origin, amount)
			if kind == "slow-store" {
				d := reqTO + time.Duration(s.Tape.Draw("slow-ms", 3000))*time.Millisecond
				xs.Rec.Delay = func(string) time.Duration { return d }
				s.Fault("slow-store")
			}
		case "hash":
			switch s.Tape.Draw("hash-kind", 4) {
			case 0:
				hash = w.Ch.At(tail + uint64(s.Tape.Draw("hh", int(H-tail+1)))).Hash()
			case 1:
				hash = w.Ch.At(tail - 1).Hash() // pruned
			case 2:
				hash = garbage(s, 32)
			default:
				hash = garbage(s, s.Tape.Draw("hlen", 200))
			}
			payload = frameReq(&p2p_pb.HeaderRequest{Data: &p2p_pb.HeaderRequest_Hash{Hash: hash}, Amount: uint64(s.Tape.Draw("hash-amount", 3))})
			desc = fmt.Sprintf("hash %x", hash)
		case "dirty-then-short":
			// a request that starts like a valid one and ends in an invalid byte is rejected; the
			// request right after it carries less than a full one (no amount, or nothing at all)
			// and is judged on its own - nothing of the rejected request's fields applies to it
			pre := &p2p_pb.HeaderRequest{Data: &p2p_pb.HeaderRequest_Origin{Origin: core.Pick(s.Tape, "dirty-origin", origins[3:9])}, Amount: uint64(1 + s.Tape.Draw("dirty-amount", 8))}
			body, _ := pre.Marshal()
			body = append(body, 0x0c) // field 1, wire type 4 (end group): invalid here
			dirty := append([]byte{byte(len(body))}, body...)
			_, fin := s.Do("dirty-request", maxWait+5*time.Second, func() { _ = w.rawRequest(1, dirty, true, maxWait) })
			if !fin {
				s.Violate("server-hang", map[string]string{"req": kind}, "malformed request: the server did not finish within %v", maxWait)
			}
			s.Probe("short-request-after-rejected-one")
			if s.Tape.Coin("short-is-empty", 1, 2) {
				payload = frameReq(&p2p_pb.HeaderRequest{})
				desc = "empty request after a rejected one"
				kind = "empty"
			} else {
				origin = core.Pick(s.Tape, "origin", origins[3:9])
				amount = 0
				payload = frameReq(&p2p_pb.HeaderRequest{Data: &p2p_pb.HeaderRequest_Origin{Origin: origin}})
				desc = fmt.Sprintf("range origin=%d amount=0 after a rejected request", origin)
				kind = "range"
			}
		case "garbage":
			payload = garbage(s, 1+s.Tape.Draw("glen", 100))
		case "stalled":
			payload = nil // never send anything
			closeWrite = false
			s.Fault("stalled-client")
		case "half-frame":
			full := frameReq(&p2p_pb.HeaderRequest{Data: &p2p_pb.HeaderRequest_Origin{Origin: tail}, Amount: 3})
			payload = full[:len(full)/2]
			// (libp2p's mocknet streams ignore read/write deadlines, so a client that stalls
			// without closing cannot be timed out here: the write side is always closed)
		}
		cases = append(cases, desc)
		xs.Rec.ResetCounts()
		var resp rawResp
		t, fin := s.Do("request", maxWait+5*time.Second, func() { resp = w.rawRequest(1, payload, closeWrite, maxWait) })
		xs.Rec.Delay = nil
		at := map[string]string{"req": kind}
		if t.Panic != nil {
			s.Aborted = fmt.Sprintf("raw client panicked: %v", t.Panic)
			break
		}
		if !fin || resp.timedOut {
			s.Violate("server-hang", at, "request [%s] (store tail=%d head=%d): the server did not finish within ReadDeadline+RequestTimeout+WriteDeadline (+2s) = %v", desc, tail, H, maxWait)
			break
		}
		reads, maxRange, calls := xs.Rec.Counts()
		limit := header.MaxRangeRequestSize
		switch kind {
		case "range", "slow-store":
			want := amount
			if want > limit {
				want = limit
			}
			if origin == 0 && want > 1 {
				want = 1
			}
			// HasAt/Head lookups are bookkeeping; header reads are GetRange spans and Get/GetByHeight calls
			var hdrReads uint64
			for _, c := range calls {
				var a, b uint64
				if n, _ := fmt.Sscanf(c, "GetRange(%d,%d)", &a, &b); n == 2 && b > a {
					hdrReads += b - a
				}
			}
			if hdrReads > want || maxRange > limit && maxRange != reads {
				s.Violate("excess-store-reads", map[string]string{"pruned": fmt.Sprint(origin < tail && origin > 0)}, "request [%s] on a store with tail=%d head=%d made the server read %d headers (calls %v); requested %d, limit %d", desc, tail, H, hdrReads, calls, amount, limit)
				break
			}
			w.checkRangeReply(s, resp, origin, amount, tail, H, desc)
		case "hash":
			w.checkHashReply(s, resp, hash, tail, H, desc)
		default:
			// malformed / absent request: nothing but a reset or a close without data
			if kind == "garbage" && parsesAsRequest(payload) {
				// random bytes that happen to be a well-formed request for something: not malformed
				s.Probe("garbage-is-a-valid-request")
				break
			}
			for _, f := range resp.frames {
				if f.StatusCode == p2p_pb.StatusCode_OK && len(f.Body) > 0 {
					s.Violate("data-for-malformed-request", at, "request [%s]: the server sent a header", desc)
				}
			}
		}
		_ = reads
	}
	return RunInfo{Nontrivial: len(cases) > 0, StateKey: fmt.Sprint(tail, H, cases), Evals: len(cases),
		Sample: map[string]any{"store": fmt.Sprintf("tail=%d head=%d", tail, H), "read_deadline": readDL.String(), "request_timeout": reqTO.String(), "write_deadline": writeDL.String(), "requests": cases}}
}

func isReset(err error) bool {
	return err != nil && !errors.Is(err, io.EOF) && (errors.Is(err, network.ErrReset) || true)
}

func (w *XW) checkRangeReply(s *core.Sim, resp rawResp, origin, amount, tail, top uint64, desc string) {
	at := map[string]string{"req": "range"}
	clean := errors.Is(resp.endErr, io.EOF)
	if !clean {
		// a reset is always an allowed answer, but then no data must have been sent that is wrong
		for i, f := range resp.frames {
			if f.StatusCode == p2p_pb.StatusCode_OK {
				h := new(simhdr.H)
				if err := h.UnmarshalBinary(f.Body); err != nil || !w.Ch.Is(h) {
					s.Violate("false-data", at, "request [%s]: frame %d before the reset is not a store header", desc, i)
				}
			}
		}
		return
	}
	if len(resp.frames) == 0 {
		s.Violate("empty-reply", at, "request [%s]: stream closed without any response frame", desc)
		return
	}
	if resp.frames[0].StatusCode == p2p_pb.StatusCode_NOT_FOUND {
		if len(resp.frames) != 1 || len(resp.frames[0].Body) != 0 {
			s.Violate("malformed-notfound", at, "request [%s]: NOT_FOUND with %d frames / body %d bytes", desc, len(resp.frames), len(resp.frames[0].Body))
		}
		// (NOT_FOUND is always an allowed answer by the statement: e.g. a store that is too slow
		// for the request timeout makes the server answer NOT_FOUND for stored heights)
		if origin >= tail && amount > 0 && amount <= header.MaxRangeRequestSize && origin+amount-1 <= top && origin+amount-1 >= origin {
			s.Probe("notfound-for-stored-range")
		}
		return
	}
	// OK frames: exactly the store's headers at origin, origin+1, ... (origin 0 = head)
	start := origin
	want := amount
	if origin == 0 {
		start, want = top, 1
	}
	for i, f := range resp.frames {
		if f.StatusCode != p2p_pb.StatusCode_OK {
			s.Violate("mixed-status", at, "request [%s]: frame %d has status %d after OK frames", desc, i, f.StatusCode)
			return
		}
		h := new(simhdr.H)
		if err := h.UnmarshalBinary(f.Body); err != nil {
			s.Violate("false-data", at, "request [%s]: frame %d does not decode: %v", desc, i, err)
			return
		}
		exp := w.Ch.At(start + uint64(i))
		if start+uint64(i) < tail || start+uint64(i) > top || !simhdr.Equal(h, exp) {
			s.Violate("false-data", at, "request [%s]: frame %d is %v, the store has %v at height %d (tail=%d head=%d)", desc, i, h, exp, start+uint64(i), tail, top)
			return
		}
	}
	n := uint64(len(resp.frames))
	if n > want {
		s.Violate("too-many-headers", at, "request [%s]: %d headers for amount %d", desc, n, want)
		return
	}
	if n < want && start+want-1 <= top {
		s.Violate("short-reply", at, "request [%s]: %d of %d headers although the range ends at or below the head %d", desc, n, want, top)
	}
}

func (w *XW) checkHashReply(s *core.Sim, resp rawResp, hash []byte, tail, top uint64, desc string) {
	at := map[string]string{"req": "hash"}
	if !errors.Is(resp.endErr, io.EOF) {
		return // reset
	}
	if len(resp.frames) == 0 {
		s.Violate("empty-reply", at, "request [%s]: stream closed without any response frame", desc)
		return
	}
	stored := false
	for h := tail; h <= top; h++ {
		if string(w.Ch.At(h).Hash()) == string(hash) {
			stored = true
		}
	}
	f := resp.frames[0]
	if f.StatusCode == p2p_pb.StatusCode_NOT_FOUND {
		if stored {
			s.Violate("notfound-for-stored-hash", at, "request [%s]: NOT_FOUND for a stored header", desc)
		}
		return
	}
	h := new(simhdr.H)
	if err := h.UnmarshalBinary(f.Body); err != nil || string(h.Hash()) != string(hash) || !stored || len(resp.frames) != 1 {
		s.Violate("false-data", at, "request [%s]: got %d frames, first decodes to %v (err %v); stored=%v", desc, len(resp.frames), h, err, stored)
	}
}

// parsesAsRequest reports whether raw bytes are a length-delimited, well-formed HeaderRequest
// that asks for something.
func parsesAsRequest(b []byte) bool {
	n, k := binary.Uvarint(b)
	if k <= 0 || uint64(len(b)-k) < n {
		return false
	}
	var req p2p_pb.HeaderRequest
	if err := req.Unmarshal(b[k : k+int(n)]); err != nil {
		return false
	}
	return req.Amount > 0 && req.Data != nil
}
