// Package simhdr is the header type used by every simulated world. Unlike
// headertest.DummyHeader its Verify checks hash links and a MAC ("signature"),
// so a forged header can be expressed and can never pass adjacent verification.
package simhdr

import (
	"bytes"
	"crypto/sha256"
	"encoding/binary"
	"errors"
	"fmt"
	"time"

	header "github.com/celestiaorg/go-header"
)

// Shape selects what the type-level Verify returns for this (untrusted)
// header, so that C01 can quantify over every result shape. 0 = real checks.
type Shape uint8

const (
	ShapeReal Shape = iota
	ShapeNil
	ShapePlainErr
	ShapeBareSoft
	ShapeBareHard
	ShapeWrappedSoft
	ShapeWrappedHard
	// ShapeSharedHard: the type returns one and the same *VerifyError value every time it
	// rejects (a sentinel, as error values often are): what one verification does to that
	// value must not show in the next
	ShapeSharedHard
	NumShapes
)

var ErrType = errors.New("simhdr: type-level verification failed")

// H is the simulated header.
type H struct {
	Chain string
	Ht    uint64
	T     int64 // unix nanos
	Prev  []byte
	Epoch uint64
	Sig   [8]byte
	Salt  uint64
	Shape Shape
	// BadValidate makes Validate fail (a structurally invalid header that still
	// decodes).
	BadValidate bool

	hash []byte
}

// Config is per-run global configuration of the type-level verification.
type Config struct {
	// TrustRange: non-adjacent verification succeeds iff
	// 0 <= u.Epoch - t.Epoch <= TrustRange.
	TrustRange uint64
	// BadEpoch: non-adjacent verification from trusted epoch a to untrusted
	// epoch b additionally fails if any epoch in (a,b] is "bad".
	BadEpoch map[uint64]bool
	// VerifyCalls counts type-level Verify invocations (probe).
	VerifyCalls int
	// Sentinel is the shared rejection of ShapeSharedHard headers (one per run)
	Sentinel *header.VerifyError
	// DecoderPanics: UnmarshalBinary panics on a poisoned first byte instead of returning an error
	// (C11 quantifies over decoders that panic; nobody else does, and arbitrary stored bytes -
	// e.g. a height-index value read through a colliding hash key - must not take the process down
	// because of the harness's own decoder)
	DecoderPanics bool
}

var Cfg = Config{TrustRange: ^uint64(0)}

func Reset() { Cfg = Config{TrustRange: ^uint64(0)} }

var secret = []byte("simhdr-chain-secret-v1")

func (h *H) New() *H          { return new(H) }
func (h *H) IsZero() bool     { return h == nil }
func (h *H) ChainID() string  { return h.Chain }
func (h *H) Height() uint64   { return h.Ht }
func (h *H) Time() time.Time  { return time.Unix(0, h.T).UTC() }
func (h *H) LastHeader() header.Hash { return h.Prev }

func (h *H) Hash() header.Hash {
	if h.hash == nil {
		b, _ := h.MarshalBinary()
		s := sha256.Sum256(b)
		h.hash = s[:]
	}
	return h.hash
}

func (h *H) mac() [8]byte {
	d := sha256.New()
	d.Write(secret)
	d.Write([]byte(h.Chain))
	var b [8]byte
	binary.BigEndian.PutUint64(b[:], h.Ht)
	d.Write(b[:])
	binary.BigEndian.PutUint64(b[:], uint64(h.T))
	d.Write(b[:])
	d.Write(h.Prev)
	binary.BigEndian.PutUint64(b[:], h.Epoch)
	d.Write(b[:])
	binary.BigEndian.PutUint64(b[:], h.Salt)
	d.Write(b[:])
	var out [8]byte
	copy(out[:], d.Sum(nil))
	return out
}

// Sign makes the header an honest one (valid MAC).
func (h *H) Sign() *H { h.Sig = h.mac(); h.hash = nil; return h }

func (h *H) ValidSig() bool { return h.Sig == h.mac() }

// TypeVerify is the reference statement of the type-level check; Verify
// implements it. Returned error is nil iff accepted.
func (h *H) Verify(u *H) error {
	Cfg.VerifyCalls++
	switch u.Shape {
	case ShapeNil:
		return nil
	case ShapePlainErr:
		return ErrType
	case ShapeBareSoft:
		return &header.VerifyError{Reason: ErrType, SoftFailure: true}
	case ShapeBareHard:
		return &header.VerifyError{Reason: ErrType}
	case ShapeWrappedSoft:
		return fmt.Errorf("wrapped: %w", &header.VerifyError{Reason: ErrType, SoftFailure: true})
	case ShapeWrappedHard:
		return fmt.Errorf("wrapped: %w", &header.VerifyError{Reason: ErrType})
	case ShapeSharedHard:
		if Cfg.Sentinel == nil {
			Cfg.Sentinel = &header.VerifyError{Reason: ErrType}
		}
		return Cfg.Sentinel
	}
	if !u.ValidSig() {
		return fmt.Errorf("%w: bad signature at %d", ErrType, u.Ht)
	}
	if u.Ht == h.Ht+1 {
		if !bytes.Equal(u.Prev, h.Hash()) {
			return fmt.Errorf("%w: prev hash mismatch at %d", ErrType, u.Ht)
		}
		return nil
	}
	if !TrustPath(h.Epoch, u.Epoch) {
		return fmt.Errorf("%w: cannot trust epoch %d from %d", ErrType, u.Epoch, h.Epoch)
	}
	return nil
}

// TrustPath is the non-adjacent trust predicate.
func TrustPath(from, to uint64) bool {
	if to < from || to-from > Cfg.TrustRange {
		return false
	}
	for e := range Cfg.BadEpoch {
		if e > from && e <= to {
			return false
		}
	}
	return true
}

func (h *H) Validate() error {
	if h.BadValidate {
		return errors.New("simhdr: invalid header (flag)")
	}
	if h.Ht == 0 {
		return errors.New("simhdr: zero height")
	}
	// (an empty chain id is structurally fine for this header type: whether it is the
	// *right* chain is the business of the verification and of the exchange's chain-id check)
	if len(h.Prev) != 32 {
		return errors.New("simhdr: bad prev hash length")
	}
	return nil
}

const magic = 0xA7

// PanicMagic as first byte makes UnmarshalBinary panic (C11 quantifies over
// decoders that panic).
const PanicMagic = 0xFE

func (h *H) MarshalBinary() ([]byte, error) {
	var b bytes.Buffer
	b.WriteByte(magic)
	var u [8]byte
	b.WriteByte(byte(len(h.Chain)))
	b.WriteString(h.Chain)
	binary.BigEndian.PutUint64(u[:], h.Ht)
	b.Write(u[:])
	binary.BigEndian.PutUint64(u[:], uint64(h.T))
	b.Write(u[:])
	b.WriteByte(byte(len(h.Prev)))
	b.Write(h.Prev)
	binary.BigEndian.PutUint64(u[:], h.Epoch)
	b.Write(u[:])
	b.Write(h.Sig[:])
	binary.BigEndian.PutUint64(u[:], h.Salt)
	b.Write(u[:])
	b.WriteByte(byte(h.Shape))
	if h.BadValidate {
		b.WriteByte(1)
	} else {
		b.WriteByte(0)
	}
	return b.Bytes(), nil
}

func (h *H) UnmarshalBinary(d []byte) error {
	if len(d) > 0 && d[0] == PanicMagic {
		if Cfg.DecoderPanics {
			panic("simhdr: decoder panic on poisoned payload")
		}
		return errors.New("simhdr: poisoned payload")
	}
	r := bytes.NewReader(d)
	rd := func(n int) ([]byte, error) {
		if n < 0 || n > r.Len() {
			return nil, errors.New("simhdr: truncated")
		}
		out := make([]byte, n)
		_, _ = r.Read(out)
		return out, nil
	}
	m, err := rd(1)
	if err != nil {
		return err
	}
	if m[0] != magic {
		return errors.New("simhdr: bad magic")
	}
	l, err := rd(1)
	if err != nil {
		return err
	}
	c, err := rd(int(l[0]))
	if err != nil {
		return err
	}
	f, err := rd(16)
	if err != nil {
		return err
	}
	pl, err := rd(1)
	if err != nil {
		return err
	}
	prev, err := rd(int(pl[0]))
	if err != nil {
		return err
	}
	g, err := rd(8 + 8 + 8 + 2)
	if err != nil {
		return err
	}
	if r.Len() != 0 {
		return errors.New("simhdr: trailing bytes")
	}
	if g[24] >= byte(NumShapes) || g[25] > 1 {
		return errors.New("simhdr: bad flags")
	}
	h.Chain = string(c)
	h.Ht = binary.BigEndian.Uint64(f[0:8])
	h.T = int64(binary.BigEndian.Uint64(f[8:16]))
	h.Prev = prev
	h.Epoch = binary.BigEndian.Uint64(g[0:8])
	copy(h.Sig[:], g[8:16])
	h.Salt = binary.BigEndian.Uint64(g[16:24])
	h.Shape = Shape(g[24])
	h.BadValidate = g[25] == 1
	// (the lazily computed hash is NOT cleared, the way decoders of real header types leave
	// private caches alone: decoding into anything but a fresh header shows)
	return nil
}

func (h *H) String() string {
	if h == nil {
		return "<zero>"
	}
	return fmt.Sprintf("%s#%d@%s/%X", h.Chain, h.Ht, time.Unix(0, h.T).UTC().Format("15:04:05.000"), h.Hash()[:3])
}

// Equal compares by full encoding.
func Equal(a, b *H) bool {
	if a == nil || b == nil {
		return a == b
	}
	return bytes.Equal(a.Hash(), b.Hash())
}

var _ header.Header[*H] = (*H)(nil)
