package simhdr

import (
	"errors"
	"sync"
	"time"

	header "github.com/celestiaorg/go-header"
)

// Chain is the honest chain: a deterministic function of its parameters.
// Headers are built lazily and cached; height First is the first one.
type Chain struct {
	ID      string
	First   uint64
	Genesis time.Time
	// Spacing returns the time between header h-1 and h (h > First).
	Spacing func(h uint64) time.Duration
	// EpochOf returns the epoch of height h (non-decreasing in h).
	EpochOf func(h uint64) uint64
	mu      sync.Mutex // tasks woken by channel operations may extend the chain concurrently
	hs      []*H
}

func NewChain(id string, first uint64, genesis time.Time, spacing time.Duration) *Chain {
	return &Chain{
		ID: id, First: first, Genesis: genesis,
		Spacing: func(uint64) time.Duration { return spacing },
		EpochOf: func(h uint64) uint64 { return h },
	}
}

// At returns the honest header at height h (h >= First).
func (c *Chain) At(h uint64) *H {
	if h < c.First {
		return nil
	}
	c.mu.Lock()
	defer c.mu.Unlock()
	for uint64(len(c.hs)) <= h-c.First {
		n := c.First + uint64(len(c.hs))
		var prev []byte
		var t int64
		if len(c.hs) == 0 {
			prev = make([]byte, 32)
			t = c.Genesis.UnixNano()
		} else {
			p := c.hs[len(c.hs)-1]
			prev = p.Hash()
			t = p.T + int64(c.Spacing(n))
		}
		x := &H{Chain: c.ID, Ht: n, T: t, Prev: prev, Epoch: c.EpochOf(n)}
		x.Sign()
		x.Hash() // fill the hash cache while nobody else can see the header
		c.hs = append(c.hs, x)
	}
	return c.hs[h-c.First]
}

// Range returns honest headers [from,to].
func (c *Chain) Range(from, to uint64) []*H {
	var out []*H
	for h := from; h <= to; h++ {
		out = append(out, c.At(h))
	}
	return out
}

// Is reports whether x is exactly the honest header of its height.
func (c *Chain) Is(x *H) bool {
	if x == nil || x.Ht < c.First {
		return false
	}
	return Equal(c.At(x.Ht), x)
}

// --- adversary ---------------------------------------------------------------

// Clone copies a header (hash cache dropped).
func Clone(h *H) *H {
	c := *h
	c.Prev = append([]byte(nil), h.Prev...)
	c.hash = nil
	return &c
}

// ForgeSig returns a copy with an invalid MAC (distinct per salt).
func ForgeSig(h *H, salt uint64) *H {
	c := Clone(h)
	c.Salt = salt | 1<<63
	c.Sig = [8]byte{0xde, 0xad, byte(salt), byte(salt >> 8), 1, 2, 3, 4}
	if c.ValidSig() {
		c.Sig[0] ^= 0xff
	}
	return c
}

// Fork returns a *validly signed* header at the same height that does not link
// to the honest predecessor (wrong Prev). Adjacent verification rejects it;
// non-adjacent verification (which cannot see links) may accept it - that is
// inherent to skipping verification and not part of any property, so scenarios
// only use Fork where the statement covers it.
func Fork(h *H, salt uint64) *H {
	c := Clone(h)
	c.Prev = make([]byte, 32)
	c.Prev[0] = 0xF0
	c.Prev[1] = byte(salt)
	c.Salt = salt
	return c.Sign()
}

// WrongChain returns a validly signed header of another chain id (differs by
// more than letter case).
func WrongChain(h *H) *H {
	c := Clone(h)
	c.Chain = h.Chain + "-other"
	return c.Sign()
}

// Retime returns a validly signed copy with another timestamp.
func Retime(h *H, t time.Time) *H {
	c := Clone(h)
	c.T = t.UnixNano()
	return c.Sign()
}

// --- reference model of header.Verify (C01) ---------------------------------------

type Verdict struct {
	OK        bool
	Mandatory []error // sentinels whose condition is violated (any one is acceptable)
	Soft      bool    // expected SoftFailure when no mandatory check failed
	TypeErr   bool    // rejection must come from the type-level check
}

// ModelVerify restates property C01 for this header type. drift is the
// calibrated clock-drift allowance.
func ModelVerify(now time.Time, drift time.Duration, t, u *H) Verdict {
	var v Verdict
	if t == nil || u == nil {
		v.Mandatory = append(v.Mandatory, header.ErrZeroHeader)
		return v
	}
	if u.Chain != t.Chain {
		v.Mandatory = append(v.Mandatory, header.ErrWrongChainID)
	}
	if u.Ht <= t.Ht {
		v.Mandatory = append(v.Mandatory, header.ErrKnownHeader)
	}
	if u.Time().Before(t.Time()) {
		v.Mandatory = append(v.Mandatory, header.ErrUnorderedTime)
	}
	if u.Time().After(now.Add(drift)) {
		v.Mandatory = append(v.Mandatory, header.ErrFromFuture)
	}
	if len(v.Mandatory) > 0 {
		return v
	}
	adjacent := u.Ht == t.Ht+1
	ok, typeSoft := modelType(t, u)
	if ok {
		v.OK = true
		return v
	}
	v.TypeErr = true
	v.Soft = typeSoft || !adjacent
	return v
}

func modelType(t, u *H) (ok, soft bool) {
	switch u.Shape {
	case ShapeNil:
		return true, false
	case ShapePlainErr, ShapeBareHard, ShapeWrappedHard, ShapeSharedHard:
		return false, false
	case ShapeBareSoft, ShapeWrappedSoft:
		return false, true
	}
	if !u.ValidSig() {
		return false, false
	}
	if u.Ht == t.Ht+1 {
		return string(u.Prev) == string(t.Hash()), false
	}
	return TrustPath(t.Epoch, u.Epoch), false
}

// Passes is the boolean form: would header.Verify(t,u) return nil.
func Passes(now time.Time, drift time.Duration, t, u *H) bool {
	return ModelVerify(now, drift, t, u).OK
}

var ErrNotOnChain = errors.New("simhdr: header is not the honest chain's")
